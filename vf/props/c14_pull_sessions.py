"""C14 - Pull enumeration sessions deliver each object exactly once, within limits.

Reference-model monitor: generated histories of 1-4 interleaved enumeration
sessions against a FakedWBEMConnection; an online trace checker per session
states only what the property states (at most MaxObjectCount objects per
response, exactly-once delivery of the traditional operation's result, eos only
when nothing remains, progress, refusal of ended / fabricated / wrong-kind
contexts, empty context table when every session has ended).
"""
import warnings
from collections import Counter

import pywbem
from pywbem import CIMError, CIMInstanceName

from vf import pullgen
from vf.pullgen import ident, DEFAULT_NS
from vf.fingerprint import fp, diff
from vf.reach import Reach
from vf.runner import h64, short, CaseTimeout

META = dict(
    id='C14',
    level='exploration',
    technique='runtime monitoring: reference-model trace checker over '
              'generated open/pull/close histories on the mock server, '
              'context-table leak oracle, sys.monitoring reach counters',
    level_text='Seeded histories of 1-4 interleaved enumeration sessions (all '
               '7 Open operations, result sizes 0..40 and rarely >100, '
               'MaxObjectCount sequences over None/0/1/k/remaining+-1/huge, '
               'early close, wrong-kind pulls, stale and fabricated contexts, '
               'repository mutation, namespace removal and toggling of '
               'disable_pull_operations during sessions).  Every response is '
               'checked online against the traditional operation executed at '
               'open time; held-on-K-histories evidence, not a proof.',
    level_note='Trusted: the 150-line session model in this module; object '
               'identity by unique instance keys (vf/pullgen.py); the '
               "server's enumeration_contexts dict as leak oracle (named by "
               'the property).  OpenQueryInstances with results is reachable '
               'only with a harness query engine (the mock has none); what is '
               'seen there is reported as latent, not as a violation.',
    design_ref='DESIGN.md section 3, C14',
    rule='case = one history; evaluation = one session; non-trivial session = '
         'at least 2 pull requests were answered for it; distinct by (open '
         'operation, result size, MaxObjectCount sequence, interleaving '
         'signature)',
    assumptions=[
        'MaxObjectCount=None is only used on Open (documented as not allowed '
        'on Pull)',
        'the result "at open time" is the reference: repository changes made '
        'while a session is open must not show up in it',
        'after removal of the namespace of an open session a pull may be '
        'refused; the leak oracle is evaluated after every session was ended '
        'by eos or CloseEnumeration',
    ],
    min_eval=500, min_distinct=100,
    required_events=['MainProvider._pull_response',
                     'MainProvider._open_response',
                     'MainProvider.CloseEnumeration',
                     'checked:response', 'checked:eos-complete',
                     'checked:stale-context', 'checked:wrong-kind-pull',
                     'checked:leak-oracle'],
)

REACH = ['pywbem_mock._mainprovider:MainProvider._pull_response',
         'pywbem_mock._mainprovider:MainProvider._open_response',
         'pywbem_mock._mainprovider:MainProvider._openquery_response',
         'pywbem_mock._mainprovider:MainProvider.CloseEnumeration',
         'pywbem_mock._mainprovider:MainProvider._validate_open_params',
         'pywbem._cim_operations:_validate_MaxObjectCount_OpenPull',
         'pywbem._cim_operations:WBEMConnection._get_rslt_params']

INVALID_CTX = pywbem.CIM_ERR_INVALID_ENUMERATION_CONTEXT
HUGE = [2 ** 31 - 1, 2 ** 32 - 1, 10 ** 12]

# open operation -> (pull kind, traditional operation, result attribute)
OPS = {
    'OpenEnumerateInstances': ('withpath', 'EnumerateInstances', 'instances'),
    'OpenEnumerateInstancePaths': ('paths', 'EnumerateInstanceNames',
                                   'paths'),
    'OpenAssociatorInstances': ('withpath', 'Associators', 'instances'),
    'OpenAssociatorInstancePaths': ('paths', 'AssociatorNames', 'paths'),
    'OpenReferenceInstances': ('withpath', 'References', 'instances'),
    'OpenReferenceInstancePaths': ('paths', 'ReferenceNames', 'paths'),
    'OpenQueryInstances': ('query', 'ExecQuery', 'instances'),
}
PULL_OF = {'withpath': 'PullInstancesWithPath', 'paths': 'PullInstancePaths',
           'query': 'PullInstances'}
ATTR_OF = {'PullInstancesWithPath': 'instances', 'PullInstancePaths': 'paths',
           'PullInstances': 'instances'}


def plan(tier):
    if tier == 'quick':
        return dict(cases=3000, time_s=60, case_cpu_s=30)
    return dict(cases=60000, time_s=420, case_cpu_s=60)


def setup_worker(ctx):
    warnings.simplefilter('ignore')
    ctx.state['reach'] = Reach(REACH).start()


def finish_worker(ctx):
    ctx.state['reach'].flush(ctx)
    ctx.state['reach'].stop()


# ------------------------------------------------------------ generators ---

def case_variant(rng, name):
    r = rng.random()
    if r < 0.8:
        return name
    return name.lower() if r < 0.9 else name.upper()


def gen_open(rng, srv, stubbed):
    """Arguments of one Open operation plus the arguments of its traditional
    twin.  Returns dict(op, ns, args, trad_args, cls)."""
    rec = srv.recipe
    ns = rng.choice(rec['namespaces'])
    bad_ns = False
    if rng.random() < 0.03:
        ns, bad_ns = 'root/nosuch', True
    weights = [('OpenEnumerateInstances', 4), ('OpenEnumerateInstancePaths', 4),
               ('OpenAssociatorInstances', 3),
               ('OpenAssociatorInstancePaths', 3),
               ('OpenReferenceInstances', 3), ('OpenReferenceInstancePaths', 3),
               ('OpenQueryInstances', 4 if stubbed else 1)]
    op = rng.choices([w[0] for w in weights], [w[1] for w in weights])[0]
    args, targs = {}, {}
    cls = None
    if op.startswith('OpenEnumerate'):
        cls = rng.choice(['PG_Base'] * 8 + ['PG_Sub1'] * 3 +
                         ['PG_Sub2', 'PG_Sub2', 'PG_Empty', 'PG_Hub',
                          'PG_Link', 'PG_Link', 'PG_Tie'])
        if rng.random() < 0.03:
            cls = 'PG_NoSuchClass'
        cname = case_variant(rng, cls)
        args = {'ClassName': cname, 'namespace': ns}
        targs = dict(args)
        if op == 'OpenEnumerateInstances':
            for k, vals in (('DeepInheritance', [None, None, True, False]),
                            ('IncludeClassOrigin', [None, None, True]),
                            ('PropertyList', [None, None, None, ['id'],
                                              ['n', 'tag'], [], ['ID', 's1']])):
                v = rng.choice(vals)
                if v is not None:
                    args[k] = v
                    targs[k] = v
    elif op != 'OpenQueryInstances':
        real_ns = ns if not bad_ns else DEFAULT_NS
        hubs = srv.hub_paths.get(real_ns, [])
        items = srv.item_paths.get(real_ns, [])
        r = rng.random()
        if r < 0.85 and hubs:
            src = rng.choice(hubs).copy()
        elif r < 0.97 and items:
            src = rng.choice(items).copy()
        else:
            src = CIMInstanceName('PG_Hub', {'id': 'no-such-hub'},
                                  namespace=real_ns)
        src.namespace = ns
        cls = src.classname
        args = {'InstanceName': src}
        assoc = op.startswith('OpenAssociator')
        if assoc:
            v = rng.choice([None] * 6 + ['PG_Link', 'PG_Link', 'PG_Tie', 'pg_link'])
            if v:
                args['AssocClass'] = v
            v = rng.choice([None] * 8 + ['PG_Base', 'PG_Base', 'PG_Sub1',
                                         'PG_Sub2', 'PG_Hub'])
            if v:
                args['ResultClass'] = v
            v = rng.choice([None] * 10 + ['item', 'item', 'right', 'hub',
                                          'ITEM'])
            if v:
                args['ResultRole'] = v
        else:
            v = rng.choice([None] * 6 + ['PG_Link', 'PG_Link', 'PG_Tie', 'pg_tie'])
            if v:
                args['ResultClass'] = v
        v = rng.choice([None] * 10 + ['hub', 'hub', 'left', 'item', 'HUB'])
        if v:
            args['Role'] = v
        targs = dict(args)
        targs['ObjectName'] = targs.pop('InstanceName').copy()
        if op.endswith('Instances'):
            for k, vals in (('IncludeClassOrigin', [None, None, True]),
                            ('PropertyList', [None, None, None, ['w'], []])):
                v = rng.choice(vals)
                if v is not None:
                    args[k] = v
                    targs[k] = v
    else:
        cls = rng.choice(['PG_Base', 'PG_Base', 'PG_Sub1', 'PG_Empty'])
        lang = 'DMTF:FQL' if stubbed and rng.random() < 0.9 else \
            rng.choice(['WQL', 'DMTF:CQL', 'DMTF:FQL'])
        q = 'SELECT * FROM %s' % cls
        args = {'FilterQueryLanguage': lang, 'FilterQuery': q,
                'namespace': ns}
        targs = {'QueryLanguage': lang, 'Query': q, 'namespace': ns}
        if rng.random() < 0.3:
            args['ReturnQueryResultClass'] = rng.random() < 0.7
    # parameters without effect on the result
    if rng.random() < 0.2:
        args['OperationTimeout'] = rng.choice([0, 1, 39, 40])
    if rng.random() < 0.15:
        args['ContinueOnError'] = rng.random() < 0.5
    # parameters the server must refuse
    refuse = None
    if rng.random() < 0.05:
        refuse = rng.choice(['timeout', 'filter-no-language', 'language'])
        if refuse == 'timeout':
            args['OperationTimeout'] = rng.choice([41, 1000, 2 ** 31])
        elif op == 'OpenQueryInstances':
            refuse = None
        elif refuse == 'filter-no-language':
            args['FilterQuery'] = 'n > 3'
            args.pop('FilterQueryLanguage', None)
        else:
            args['FilterQueryLanguage'] = rng.choice(['WQL', 'DMTF:CQL', 'x'])
            args['FilterQuery'] = 'n > 3'
    return dict(op=op, ns=ns, args=args, trad_args=targs, cls=cls,
                refuse=refuse)


def gen_open_moc(rng, size):
    r = rng.random()
    if r < 0.10:
        return None
    if r < 0.35:
        return 0
    if r < 0.55:
        return 1
    if r < 0.80:
        return rng.randint(2, max(2, size - 1))
    if r < 0.93:
        return max(0, size + rng.choice([-1, 0, 1]))
    return rng.choice(HUGE)


def gen_pull_moc(rng, remaining):
    r = rng.random()
    if r < 0.20:
        return 0
    if r < 0.42:
        return 1
    if r < 0.62:
        return rng.randint(2, max(2, min(remaining - 1, 5)))
    if r < 0.75:
        return rng.randint(2, max(2, remaining))
    if r < 0.92:
        return max(0, remaining + rng.choice([-1, 0, 1]))
    return rng.choice(HUGE)


# --------------------------------------------------------------- sessions ---

class Session:
    def __init__(self, sid, spec, moc):
        self.sid = sid
        self.spec = spec
        self.op = spec['op']
        self.kind = OPS[self.op][0]
        self.eff_kind = self.kind     # kind the server accepts (latent case)
        self.ns = spec['ns']
        self.open_moc = moc
        self.expected = Counter()
        self.fps = {}
        self.delivered = Counter()
        self.state = 'new'            # new/open/eos/closed/failed
        self.ctx = None               # last context tuple handed out
        self.mocs = []
        self.pulls = 0
        self.trace = []               # readable log
        self.inter = []               # interleaving signature
        self.lost_reported = False

    def size(self):
        return sum(self.expected.values())

    def ident(self, obj):
        if self.kind == 'query':
            # query results carry no instance path; the key property does
            v = obj.properties.get('id')
            return ('query-result', obj.classname.lower(),
                    v.value if v is not None else None)
        return ident(obj)

    def remaining(self):
        return self.size() - sum(self.delivered.values())


class History:
    def __init__(self, ctx, rng, srv, stubbed):
        self.ctx = ctx
        self.rng = rng
        self.srv = srv
        self.conn = srv.conn
        self.stubbed = stubbed
        self.sessions = []
        self.disabled = False
        self.log = []
        self.serial = 0

    # -- reporting -----------------------------------------------------------
    def detail(self, s=None):
        d = {'recipe_sizes': {ns: (len(v['items']),
                                   [(len(h['links']), len(h['ties']))
                                    for h in v['hubs']])
                              for ns, v in self.srv.recipe['ns'].items()},
             'history': self.log[-60:]}
        if s is not None:
            d['session'] = {'sid': s.sid, 'op': s.op,
                            'args': short(s.spec['args'], 300),
                            'open_MaxObjectCount': s.open_moc,
                            'size': s.size(), 'MaxObjectCounts': s.mocs,
                            'trace': s.trace[-30:]}
        return d

    def viol(self, key, what, s=None):
        self.ctx.violation(key, what, self.detail(s))

    def latent(self, s=None):
        # was tolerated as a latent defect while OpenQueryInstances
        # registered the wrong pull type; repaired in /repo, so a refusal is
        # a violation like for every other session kind
        self.viol('pull.valid-context.refused.query-session',
                  'with a query engine plugged into MainProvider.ExecQuery, '
                  'PullInstances (the documented operation for query '
                  'sessions) is refused with '
                  'CIM_ERR_INVALID_ENUMERATION_CONTEXT for the context of an '
                  'open OpenQueryInstances session', s)

    def open_sessions(self):
        return [s for s in self.sessions if s.state == 'open']

    def table_check(self, where):
        """No entry of the context table may belong to no open session."""
        n = len(self.srv.table())
        live = len(self.open_sessions())
        self.ctx.count('checked:table')
        if n > live:
            self.viol('context-table.leak',
                      '%d enumeration context(s) in the server table but only '
                      '%d session(s) are open (%s)' % (n, live, where))
            # resynchronise so that one leak is reported once per history
            return False
        return True

    # -- the online checker --------------------------------------------------
    def check_response(self, s, req, moc, objs, eos, context, is_open):
        """One Open/Pull response that belongs to session s."""
        ctx = self.ctx
        ctx.count('checked:response')
        n = len(objs)
        s.trace.append('%s(MaxObjectCount=%r) -> %d objects, eos=%r' % (
            req, moc, n, eos))
        # at most MaxObjectCount objects, none for 0
        if moc is not None and n > moc:
            if moc == 0 and not is_open:
                self.viol('pull.maxobjectcount0.delivers',
                          '%s(context, MaxObjectCount=0) returned %d objects '
                          '(eos=%r) on a session of %s with %d objects '
                          'remaining; 0 must deliver none' % (
                              req, n, eos, s.op, s.remaining()), s)
            elif moc == 0:
                self.viol('open.maxobjectcount0.delivers',
                          '%s(MaxObjectCount=0) returned %d objects' % (req, n),
                          s)
            else:
                self.viol('response.exceeds-maxobjectcount',
                          '%s(MaxObjectCount=%d) returned %d objects' % (
                              req, moc, n), s)
        # exactly once: every object is one of the expected, not yet delivered
        for o in objs:
            i = s.ident(o)
            if s.expected[i] == 0:
                self.viol('delivery.foreign-object',
                          '%s delivered %s which is not in the result of %s '
                          'at open time' % (req, short(i, 200),
                                            OPS[s.op][1]), s)
                continue
            s.delivered[i] += 1
            if s.delivered[i] > s.expected[i]:
                self.viol('delivery.duplicate',
                          '%s delivered %s for the %d. time (the traditional '
                          'result has it %d time(s))' % (
                              req, short(i, 200), s.delivered[i],
                              s.expected[i]), s)
            elif s.kind != 'query':
                f = fp(o, ignore_host=True)
                if f not in s.fps[i]:
                    self.viol('delivery.object-differs',
                              '%s delivered %s with different content than %s '
                              'at open time: %s' % (
                                  req, short(i, 120), OPS[s.op][1],
                                  short(diff(s.fps[i][0], f), 400)), s)
        # progress
        if not is_open and moc and n == 0 and not eos:
            self.viol('pull.no-progress',
                      '%s(MaxObjectCount=%d) returned neither an object nor '
                      'eos' % (req, moc), s)
        if eos:
            ctx.count('checked:eos-complete')
            if s.remaining() > 0 and not s.lost_reported:
                s.lost_reported = True
                missing = list((s.expected - s.delivered).elements())[:3]
                self.viol('eos.objects-remain',
                          '%s reported eos although %d of %d objects of the '
                          'traditional result were never delivered, e.g. %s' %
                          (req, s.remaining(), s.size(), short(missing, 300)),
                          s)
            s.state = 'eos'
            if context is not None:
                self.viol('eos.context-returned',
                          '%s reported eos but returned context %r' % (
                              req, context), s)
        else:
            if context is None or not isinstance(context, tuple) or \
                    not isinstance(context[0], str) or not context[0]:
                self.viol('response.no-context',
                          '%s reported eos=False without a usable context: %r'
                          % (req, context), s)
                s.state = 'failed'
                return
            if s.ctx is not None and context[0] != s.ctx[0]:
                ctx.count('context-id-changed')
            s.ctx = context
            s.state = 'open'

    # -- actions -------------------------------------------------------------
    def act_open(self):
        rng, conn, ctx = self.rng, self.conn, self.ctx
        spec = gen_open(rng, self.srv, self.stubbed)
        op = spec['op']
        kind, trad, attr = OPS[op]
        # the traditional result at open time
        ref_err = None
        ref = []
        try:
            if op == 'OpenQueryInstances' and self.stubbed:
                # reference straight from the harness query engine (the
                # mock's ExecQuery request wrapper is documented as untested
                # and cannot transport a result)
                ta = spec['trad_args']
                # pylint: disable=protected-access
                ref = conn._mainprovider.ExecQuery(
                    ta['namespace'], ta['QueryLanguage'], ta['Query'])
            else:
                ref = getattr(conn, trad)(**spec['trad_args'])
        except CIMError as exc:
            ref_err = exc
        except CaseTimeout:
            raise
        except Exception as exc:  # pylint: disable=broad-except
            # not this property's business (C10/C13); skip the session
            ctx.outcome('traditional-op-raised-' + type(exc).__name__)
            return
        size = len(ref)
        moc = gen_open_moc(rng, size)
        s = Session(len(self.sessions), spec, moc)
        for o in ref:
            i = s.ident(o)
            s.expected[i] += 1
            if kind != 'query':
                s.fps.setdefault(i, []).append(fp(o, ignore_host=True))
        self.sessions.append(s)
        kwargs = dict(spec['args'])
        kwargs['MaxObjectCount'] = moc
        self.log.append('s%d: %s(%s)' % (s.sid, op, short(kwargs, 200)))
        ctx.cls('open/' + op)
        ctx.cls('open-moc/' + moc_class(moc, size))
        ctx.evaluated()
        try:
            res = getattr(conn, op)(**kwargs)
        except CIMError as exc:
            s.state = 'failed'
            s.trace.append('%s -> CIMError %s' % (op, exc.status_code_name))
            self.log.append('  -> CIMError %s' % exc.status_code_name)
            ctx.outcome('open-error-' + exc.status_code_name)
            expected_refusal = self.disabled or spec['refuse'] or \
                ref_err is not None or spec['ns'] in self.srv.removed
            if op == 'OpenQueryInstances' and not self.stubbed:
                expected_refusal = True     # no query engine in the mock
            if op == 'OpenQueryInstances' and \
                    spec['args']['FilterQueryLanguage'] != 'DMTF:FQL':
                expected_refusal = True
            if not expected_refusal:
                self.viol('open.fails-where-traditional-succeeds',
                          '%s raised %s although %s returned %d objects' % (
                              op, exc.status_code_name, trad, size), s)
            self.table_check('after refused ' + op)
            return
        except CaseTimeout:
            raise
        except Exception as exc:  # pylint: disable=broad-except
            s.state = 'failed'
            # (a ValueError from a malformed format string for an
            # OperationTimeout beyond the server maximum used to be tolerated
            # here as a side observation; it is repaired in /repo)
            ctx.unexpected(exc, op + ' with valid argument types',
                           self.detail(s), prefix='open:')
            return
        objs = getattr(res, attr)
        self.log.append('  -> %d objects, eos=%r' % (len(objs), res.eos))
        ctx.outcome('open-ok')
        if spec['refuse']:
            # not part of the statement: only counted
            ctx.outcome('open-accepted-unusual-' + spec['refuse'])
        if ref_err is not None:
            self.viol('open.succeeds-where-traditional-fails',
                      '%s succeeded although %s raised %s' % (
                          op, trad, ref_err.status_code_name), s)
        self.check_response(s, op, moc, objs, res.eos, res.context, True)
        self.table_check('after ' + op)

    def do_pull(self, s, pullop, moc, context, expect):
        """Issue one pull for session s.  expect: 'ok' (valid request),
        'wrong-kind', 'stale', 'foreign-ns'."""
        conn, ctx = self.conn, self.ctx
        self.log.append('s%d: %s(MaxObjectCount=%r)%s' % (
            s.sid, pullop, moc, '' if expect == 'ok' else ' [' + expect + ']'))
        try:
            res = getattr(conn, pullop)(context, moc)
        except CIMError as exc:
            self.log.append('  -> CIMError %s' % exc.status_code_name)
            s.trace.append('%s [%s] -> CIMError %s' % (
                pullop, expect, exc.status_code_name))
            ctx.outcome('pull-%s-error-%s' % (expect, exc.status_code_name))
            return exc
        except CaseTimeout:
            raise
        except Exception as exc:  # pylint: disable=broad-except
            ctx.unexpected(exc, pullop + ' with valid argument types',
                           self.detail(s), prefix='pull:')
            return exc
        objs = getattr(res, ATTR_OF[pullop])
        self.log.append('  -> %d objects, eos=%r' % (len(objs), res.eos))
        ctx.outcome('pull-%s-answered' % expect)
        if expect in ('ok', 'foreign-ns'):
            s.pulls += 1
            s.mocs.append(moc)
            self.check_response(s, pullop, moc, objs, res.eos, res.context,
                                False)
        else:
            # a request that had to be refused was answered: account for what
            # it delivered so that the remaining checks stay meaningful
            if s.state == 'open':
                self.check_response(s, pullop, moc, objs, res.eos,
                                    res.context, False)
        return res

    def act_pull(self, s):
        rng = self.rng
        moc = gen_pull_moc(rng, s.remaining())
        self.ctx.cls('pull-moc/' + moc_class(moc, s.remaining()))
        context = s.ctx
        expect = 'ok'
        if rng.random() < 0.06 and len(self.srv.recipe['namespaces']) > 1:
            # same context id, other namespace in the tuple
            other = [n for n in self.srv.recipe['namespaces'] if n != s.ns]
            context = (s.ctx[0], rng.choice(other))
            expect = 'foreign-ns'
        res = self.do_pull(s, PULL_OF[s.eff_kind], moc, context, expect)
        if isinstance(res, CIMError):
            if self.disabled or s.ns in self.srv.removed or \
                    expect == 'foreign-ns':
                return
            if s.kind == 'query' and self.stubbed and \
                    s.eff_kind == 'query' and res.status_code == INVALID_CTX:
                # latent: OpenQueryInstances registers the context for
                # PullInstancesWithPath; continue with the kind the server
                # accepts so that the rest of the session is still checked
                self.latent(s)
                s.eff_kind = 'withpath'
                return
            self.viol('pull.valid-context.refused',
                      '%s with the context of an open %s session was refused '
                      'with %s' % (PULL_OF[s.eff_kind], s.op,
                                   res.status_code_name), s)
            s.state = 'failed'
        self.table_check('after pull')

    def act_wrong_kind(self, s):
        rng = self.rng
        kinds = [k for k in PULL_OF if k != s.eff_kind]
        if s.kind == 'query' and self.stubbed:
            kinds = ['paths']
        k = rng.choice(kinds)
        moc = rng.choice([0, 1, 1, 2, max(1, s.remaining()), rng.choice(HUGE)])
        self.ctx.count('checked:wrong-kind-pull')
        res = self.do_pull(s, PULL_OF[k], moc, s.ctx, 'wrong-kind')
        if not isinstance(res, Exception) and not self.disabled:
            self.viol('wrong-kind-pull.accepted',
                      '%s was answered for a session opened with %s (needs '
                      '%s)' % (PULL_OF[k], s.op, PULL_OF[s.kind]), s)
        self.table_check('after wrong-kind pull')

    def act_close(self, s, final=False):
        conn, ctx = self.conn, self.ctx
        self.log.append('s%d: CloseEnumeration' % s.sid)
        try:
            conn.CloseEnumeration(s.ctx)
        except CIMError as exc:
            self.log.append('  -> CIMError %s' % exc.status_code_name)
            ctx.outcome('close-error-' + exc.status_code_name)
            if self.disabled:
                return
            self.viol('close.valid-context.refused',
                      'CloseEnumeration of an open %s session was refused '
                      'with %s' % (s.op, exc.status_code_name), s)
            s.state = 'failed'
            return
        except CaseTimeout:
            raise
        except Exception as exc:  # pylint: disable=broad-except
            ctx.unexpected(exc, 'CloseEnumeration', self.detail(s),
                           prefix='close:')
            s.state = 'failed'
            return
        ctx.outcome('close-ok' + ('-final' if final else '-early'))
        s.trace.append('CloseEnumeration')
        s.state = 'closed'
        self.table_check('after CloseEnumeration')

    def act_stale(self, s):
        """Requests with the saved context of an ended session."""
        rng, conn, ctx = self.rng, self.conn, self.ctx
        if self.disabled or s.ctx is None:
            return
        what = rng.choice(['pull', 'pull', 'close', 'pull-other-kind'])
        ctx.count('checked:stale-context')
        how = 'after-eos' if s.state == 'eos' else 'after-close'
        name = {'pull': PULL_OF[s.eff_kind], 'close': 'CloseEnumeration',
                'pull-other-kind': PULL_OF[rng.choice(
                    [k for k in PULL_OF if k != s.eff_kind])]}[what]
        self.log.append('s%d: %s with the ended context [%s]' % (
            s.sid, name, how))
        try:
            if what == 'close':
                conn.CloseEnumeration(s.ctx)
            else:
                getattr(conn, name)(s.ctx, rng.choice([0, 1, 5, HUGE[0]]))
        except CIMError as exc:
            ctx.outcome('stale-%s' % exc.status_code_name)
            ok = exc.status_code == INVALID_CTX or (
                s.ns in self.srv.removed and
                exc.status_code == pywbem.CIM_ERR_INVALID_NAMESPACE)
            if not ok:
                self.viol('ended-context.wrong-status.' + how,
                          '%s with the context of a session ended (%s) was '
                          'refused with %s, not '
                          'CIM_ERR_INVALID_ENUMERATION_CONTEXT' % (
                              name, how, exc.status_code_name), s)
            return
        except CaseTimeout:
            raise
        except Exception as exc:  # pylint: disable=broad-except
            ctx.unexpected(exc, name + ' with an ended context',
                           self.detail(s), prefix='stale:')
            return
        self.viol('ended-context.accepted.' + how,
                  '%s with the context of a session that ended (%s) was '
                  'answered instead of CIM_ERR_INVALID_ENUMERATION_CONTEXT' % (
                      name, how), s)

    def act_fabricated(self):
        rng, conn, ctx = self.rng, self.conn, self.ctx
        if self.disabled:
            return
        ns = rng.choice(self.srv.recipe['namespaces'])
        live = self.open_sessions()
        cands = ['no-such-context', '', '0', 'None',
                 '00000000-0000-4000-8000-000000000000']
        if live:
            real = rng.choice(live).ctx[0]
            cands += [real.upper(), real[:-1], real + ' ', ' ' + real,
                      real[::-1], real.replace('-', '')]
        cid = rng.choice(cands)
        if cid in self.srv.table():
            return
        name = rng.choice(list(ATTR_OF) + ['CloseEnumeration'])
        self.log.append('%s with fabricated context %r' % (name, cid))
        ctx.count('checked:fabricated-context')
        try:
            if name == 'CloseEnumeration':
                conn.CloseEnumeration((cid, ns))
            else:
                getattr(conn, name)((cid, ns), rng.choice([0, 1, 7]))
        except CIMError as exc:
            ctx.outcome('fabricated-%s' % exc.status_code_name)
            if exc.status_code != INVALID_CTX and ns not in self.srv.removed:
                self.viol('fabricated-context.wrong-status',
                          '%s((%r, ns)) was refused with %s' % (
                              name, cid, exc.status_code_name))
            self.table_check('after fabricated context')
            return
        except CaseTimeout:
            raise
        except Exception as exc:  # pylint: disable=broad-except
            ctx.unexpected(exc, name + ' with a fabricated context',
                           self.detail(), prefix='fabricated:')
            return
        self.viol('fabricated-context.accepted',
                  '%s((%r, ns)) was answered although the server never issued '
                  'that context' % (name, cid))

    def act_client_side(self):
        """Arguments the client itself must reject (documented TypeError /
        ValueError) without a server round trip."""
        rng, conn, ctx = self.rng, self.conn, self.ctx
        live = self.open_sessions()
        good = live[0].ctx if live else ('x', DEFAULT_NS)
        name = rng.choice(list(ATTR_OF))
        bad_ctx, bad_moc = good, 1
        which = rng.choice(['ctx-none', 'ctx-shape', 'ctx-type', 'moc-neg',
                            'moc-type'])
        if which == 'ctx-none':
            bad_ctx = None
        elif which == 'ctx-shape':
            bad_ctx = rng.choice([(good[0],), (good[0], good[1], 1), ()])
        elif which == 'ctx-type':
            bad_ctx = rng.choice([good[0], 5, {'a': 1}])
        elif which == 'moc-neg':
            bad_moc = rng.choice([-1, -2 ** 31])
        else:
            bad_moc = rng.choice(['1', 1.0, [1]])
        n_before = len(self.srv.table())
        self.log.append('%s(%s, %r) [client-side invalid]' % (
            name, short(bad_ctx, 60), bad_moc))
        try:
            getattr(conn, name)(bad_ctx, bad_moc)
        except CaseTimeout:
            raise
        except Exception as exc:  # pylint: disable=broad-except
            # which exception is not this property's business, only that
            # nothing is consumed
            ctx.outcome('client-side-invalid-%s-%s' % (
                which, type(exc).__name__))
        else:
            ctx.outcome('client-side-invalid-%s-answered' % which)
        if len(self.srv.table()) != n_before:
            self.viol('client-side.invalid-argument-changed-server-state',
                      '%s with invalid %s changed the context table' % (
                          name, which))

    def act_mutate(self):
        """Create or delete an item; open sessions must not notice."""
        rng, conn, ctx = self.rng, self.conn, self.ctx
        ns = rng.choice([n for n in self.srv.recipe['namespaces']
                         if n not in self.srv.removed])
        items = self.srv.item_paths[ns]
        try:
            if items and rng.random() < 0.5:
                p = items.pop(rng.randrange(len(items)))
                self.log.append('DeleteInstance(%s)' % p)
                conn.DeleteInstance(p)
            else:
                self.serial += 1
                cls = rng.choice(pullgen.ITEM_CLASSES)
                iid = 'new%d' % self.serial
                p = CIMInstanceName(cls, {'id': iid}, namespace=ns)
                inst = pywbem.CIMInstance(
                    cls, {'id': iid, 'n': pywbem.Uint32(self.serial)}, path=p)
                self.log.append('CreateInstance(%s)' % p)
                conn.CreateInstance(inst, namespace=ns)
                items.append(p)
            ctx.outcome('mutation-ok')
        except pywbem.Error as exc:
            ctx.outcome('mutation-' + type(exc).__name__)

    def act_toggle(self):
        self.disabled = not self.disabled
        self.srv.set_pull_disabled(self.disabled)
        self.log.append('disable_pull_operations = %r' % self.disabled)
        self.ctx.count('toggle-disable')

    def act_remove_ns(self):
        ns = pullgen.SECOND_NS
        if ns not in self.srv.recipe['namespaces'] or ns in self.srv.removed:
            return
        ok = self.srv.empty_and_remove_namespace(ns)
        self.log.append('namespace %s emptied and removed: %r' % (ns, ok))
        if ok:
            self.ctx.count('namespace-removed')
            if any(s.ns == ns for s in self.open_sessions()):
                self.ctx.count('namespace-removed-under-open-session')

    # -- driver --------------------------------------------------------------
    def run(self):
        rng = self.rng
        max_sessions = rng.choice([1, 1, 2, 2, 3, 4])
        max_total = max_sessions + rng.randint(0, 5)
        steps = rng.randint(6, 24) * max_sessions
        self.act_open()
        for _ in range(steps):
            live = self.open_sessions()
            ended = [s for s in self.sessions
                     if s.state in ('eos', 'closed') and s.ctx is not None]
            can_open = len(live) < max_sessions and \
                len(self.sessions) < max_total
            if self.disabled and rng.random() < 0.45:
                self.act_toggle()
                continue
            r = rng.random()
            if not live and can_open and not self.disabled and r < 0.7:
                self.act_open()
            elif r < 0.50 and live:
                s = rng.choice(live)
                self.mark(s)
                self.act_pull(s)
            elif r < 0.62 and can_open and not self.disabled:
                self.act_open()
            elif r < 0.68 and live:
                s = rng.choice(live)
                self.mark(s)
                self.act_wrong_kind(s)
            elif r < 0.72 and live:
                s = rng.choice(live)
                self.mark(s)
                self.act_close(s)
            elif r < 0.79 and ended:
                self.act_stale(rng.choice(ended))
            elif r < 0.84:
                self.act_fabricated()
            elif r < 0.87:
                self.act_client_side()
            elif r < 0.91:
                self.act_mutate()
            elif r < 0.94:
                self.act_toggle()
            elif r < 0.96:
                self.act_remove_ns()
            elif can_open:
                self.act_open()
        self.finish()

    def mark(self, s):
        for t in self.open_sessions():
            if not t.inter or t.inter[-1] != s.sid:
                t.inter.append(s.sid)

    def finish(self):
        """End every session (drain or close), then the closing checks."""
        rng, ctx = self.rng, self.ctx
        if self.disabled:
            self.act_toggle()
        for s in list(self.open_sessions()):
            if s.ns in self.srv.removed or rng.random() < 0.35:
                self.act_close(s, final=True)
                continue
            # drain: must terminate within remaining+2 requests
            budget = s.remaining() + 2
            while s.state == 'open' and budget > 0:
                budget -= 1
                moc = rng.choice([1, 2, 3, max(1, s.remaining() // 2),
                                  max(1, s.remaining()), HUGE[0]])
                res = self.do_pull(s, PULL_OF[s.eff_kind], moc, s.ctx, 'ok')
                if isinstance(res, CIMError):
                    if s.kind == 'query' and self.stubbed and \
                            s.eff_kind == 'query' and \
                            res.status_code == INVALID_CTX:
                        self.latent(s)
                        s.eff_kind = 'withpath'
                        budget += 1
                        continue
                    self.viol('pull.valid-context.refused',
                              '%s with the context of an open %s session was '
                              'refused with %s' % (PULL_OF[s.eff_kind], s.op,
                                                   res.status_code_name), s)
                    s.state = 'failed'
                elif isinstance(res, Exception):
                    s.state = 'failed'
            if s.state == 'open':
                self.viol('drain.does-not-terminate',
                          'a %s session of %d objects was not at eos after '
                          '%d pulls with MaxObjectCount > 0' % (
                              s.op, s.size(), s.size() + 2), s)
                self.act_close(s, final=True)
        for s in self.sessions:
            if s.state in ('eos', 'closed') and s.ctx is not None:
                self.act_stale(s)
        # leak oracle: every session was ended by eos or close
        if all(s.state in ('eos', 'closed', 'failed', 'new')
               for s in self.sessions):
            ctx.count('checked:leak-oracle')
            n = len(self.srv.table())
            failed = [s for s in self.sessions if s.state == 'failed'
                      and s.ctx is not None]
            if n > len(failed):
                self.viol('context-table.leak',
                          '%d enumeration context(s) left in the server table '
                          'after every session of the history had ended by '
                          'eos or CloseEnumeration' % n)
        for s in self.sessions:
            ctx.cls('size/' + size_class(s.size()))
            if s.pulls >= 2:
                ctx.nontrivial(h64((s.op, s.size(), s.open_moc,
                                    tuple(s.mocs), tuple(s.inter))))
            if s.pulls >= 2 and len(ctx.samples) < 5 and s.sid == 0:
                ctx.sample({'open': s.op, 'args': short(s.spec['args'], 200),
                            'result_size': s.size(),
                            'open_MaxObjectCount': s.open_moc,
                            'pull_MaxObjectCounts': s.mocs,
                            'trace': s.trace[:12],
                            'sessions_in_history': len(self.sessions),
                            'end': s.state})


def moc_class(moc, remaining):
    if moc is None:
        return 'None'
    if moc == 0:
        return '0'
    if moc >= 2 ** 31 - 1:
        return 'huge'
    if moc == 1:
        return '1'
    if moc > remaining:
        return '>remaining'
    if moc == remaining:
        return '=remaining'
    return 'k'


def size_class(n):
    if n <= 2:
        return str(n)
    if n <= 10:
        return '3-10'
    if n <= 40:
        return '11-40'
    if n <= 100:
        return '41-100'
    return '>100'


def run_case(ctx, i, rng):
    recipe = pullgen.gen_recipe(rng)
    srv = pullgen.Server(recipe, use_pull_operations=rng.choice(
        [None, True, False]))
    stubbed = rng.random() < 0.12
    if stubbed:
        srv.stub_query()
        ctx.count('histories-with-harness-query-engine')
    h = History(ctx, rng, srv, stubbed)
    h.run()
    ctx.count('histories')
    ctx.count('sessions', len(h.sessions))
