"""C07 - WBEM URIs round-trip and canonical URIs respect path equality.

Differential monitor between pywbem's URI printer (to_wbem_uri, str,
get_cimobject_header) and its own URI parser (from_wbem_uri), plus a totality
monitor of the parser on arbitrary text.

Three kinds of cases:

  path   a generated CIMInstanceName / CIMClassName p.  For each of the four
         formats: print, parse the printed text, compare with p (with the
         hosts removed for 'cimobject').  Comparison is pywbem's == (the
         statement) and, more strictly, a loose fingerprint that ignores only
         what an untyped URI cannot carry (numeric width, char16 vs string,
         keybinding order; lexical case for 'canonical').  Paths holding a
         string key that pywbem itself reads as a datetime or as a WBEM URI are
         tagged: for them only "printed and parsed without error" is required
         (documented limit of untyped URIs).  Then equivalents of p (other
         lexical case of names/host/namespace, other keybinding order, at all
         nesting levels) must have byte-identical canonical URIs.
  text   arbitrary / near-miss / mutated text through both parsers: result
         is a path object of the right class or ValueError.  An accepted text
         yields a path which is then treated like a generated one.
  long   pathological long inputs for the regular expressions (CPU budget of
         the runner decides non-termination).

A failing round trip is attributed to a known input feature (real-typed key,
exponent float, host character, newline in a string key, historical format of
host-without-namespace) only if the same path with all *other* features removed
still fails and the path with all features removed passes; otherwise the
failure gets a generic key built from what differs.
"""
import re
import warnings

from pywbem import (CIMInstanceName, CIMClassName, CIMDateTime, CIMInt,
                    CIMFloat, Char16, Real32, Real64)
from pywbem._cim_http import get_cimobject_header

from vf import cimgen
from vf.equiv import rebuild, Equiv
from vf.fingerprint import fbits
from vf.reach import Reach
from vf.runner import h64, short, CaseTimeout

META = dict(
    id='C07',
    level='exploration',
    technique='runtime monitoring: differential round-trip monitor (URI '
              'printer vs URI parser of the working tree) over generated '
              'paths x 4 formats, canonical-form identity on constructed '
              'equivalents, totality monitor of the parser on generated text '
              'with a CPU-time budget, sys.monitoring reach counters; thorough tier also applies the same oracle to the CIM objects that the repository\'s own unit tests construct (harvested by a sys.monitoring PY_RETURN hook on the constructors)',
    level_text='Seeded generation of instance and class paths (all key types '
               'incl. typed/plain reals, exponent forms, INF/NaN, both '
               'datetime kinds, hostile strings, references nested to depth '
               '3; hosts incl. IPv6/ports/zone ids/userinfo; 1-4 level '
               'namespaces) and of arbitrary, near-miss and mutated URI '
               'text; after a round trip the parsed path is changed in place '
               'and the same text parsed again (results must be independent). '
               'Held-on-K-executions evidence, not a proof.',
    level_note='Trusted: the loose fingerprint in this module, vf/equiv.py '
               'for equivalents; the tag "reads as datetime/URI" is decided '
               'with pywbem\'s own CIMDateTime()/from_wbem_uri() on the raw '
               'string, which is what the documented limit refers to.',
    design_ref='DESIGN.md section 3, C07',
    rule='evaluation = one (path, format) round trip, one canonical-identity '
         'pair or one text through one parser; a path is non-trivial with >= 2 '
         'keybindings, a nested reference or a string key containing one of '
         '" \\ , = newline; a text is non-trivial if it is not purely '
         'alphanumeric; distinct by (canonical URI or text, format)',
    assumptions=[
        'paths with a string key that pywbem reads as a datetime or a WBEM '
        'URI only have to print and parse without error (documented limit)',
        'paths holding NaN are compared by fingerprint only (NaN != NaN)',
        'numeric keys come back as int/float (documented limit): compared '
        'by value',
        'empty host / empty namespace strings and unnamed keybindings are '
        'not generated',
        'a CIMDateTime key whose str() is not a 25-character CIM datetime '
        '(interval fields beyond their range, accepted and normalised by '
        'CIMDateTime) is outside "expressible"; such paths only have to '
        'print and parse without error',
    ],
    min_eval=8000, min_distinct=1500,
    required_events=['CIMInstanceName.to_wbem_uri',
                     'CIMInstanceName.from_wbem_uri',
                     'CIMInstanceName._kbstr_to_cimval',
                     'CIMClassName.to_wbem_uri', 'CIMClassName.from_wbem_uri',
                     '_integerValue_to_int', '_realValue_to_float',
                     'get_cimobject_header', 'roundtrip-compared',
                     'canonical-pairs', 'nested-reference-paths',
                     'text-accepted', 'text-rejected', 'tagged-ambiguous'],
)

REACH = ['pywbem._cim_obj:CIMInstanceName.to_wbem_uri',
         'pywbem._cim_obj:CIMInstanceName.from_wbem_uri',
         'pywbem._cim_obj:CIMInstanceName._kbstr_to_cimval',
         'pywbem._cim_obj:CIMClassName.to_wbem_uri',
         'pywbem._cim_obj:CIMClassName.from_wbem_uri',
         'pywbem._utils:_integerValue_to_int',
         'pywbem._utils:_realValue_to_float',
         'pywbem._cim_http:get_cimobject_header']

FORMATS = ('standard', 'historical', 'canonical', 'cimobject')


def plan(tier):
    if tier == 'quick':
        return dict(cases=30000, time_s=60, case_cpu_s=20)
    return dict(cases=700000, time_s=420, case_cpu_s=20)


def setup_worker(ctx):
    warnings.simplefilter('ignore')
    ctx.state['reach'] = Reach(REACH).start()


def finish_worker(ctx):
    ctx.count('check.parse-again-after-changing-first-result',
              PARSED_AGAIN[0])
    PARSED_AGAIN[0] = 0
    ctx.state['reach'].flush(ctx)
    ctx.state['reach'].stop()


# ------------------------------------------------------------ generation ---

HOSTS_PLAIN = ['localhost', 'srv1', 'Woot', 'MyHost', 'woot.com',
               'a.b.c.example.org', 'Srv.Example.COM', 'h1.x9.net',
               'woot.com:5988', '10.11.12.13:5989', 'user@woot.com',
               'jdd:test@acme.com:5989', '[::1]', '[fe80::1]:5989',
               '[::ffff:10.1.2.3]', '[2001:DB8::1234]:5988']
HOSTS_PUNCT = ['my-host.com', 'my-host.example.com:5988', 'a-b-c',
               '[2001:db8::1234-eth0]', '[fe80::1-eth0]:5989',
               '[fe80::1%25eth0]', 'user@my-host.org']

SPECIAL = '"\\,=\n\t \'.:/'


def gen_host(rng):
    r = rng.random()
    if r < 0.55:
        return rng.choice(HOSTS_PLAIN)
    if r < 0.7:
        return '%d.%d.%d.%d' % tuple(rng.randint(0, 255) for _ in range(4)) \
            + rng.choice(['', ':%d' % rng.randint(1, 65535)])
    if r < 0.82:
        return cimgen.name(rng, nonascii=0) + rng.choice(
            ['', '.example.com', ':5988', '.Local'])
    return rng.choice(HOSTS_PUNCT)


def gen_namespace(rng):
    n = rng.choice([1, 1, 2, 2, 3, 4])
    return '/'.join(rng.choice(['root', 'cimv2', 'interop', 'Root', 'CIMV2',
                                cimgen.name(rng, nonascii=0.1),
                                '1a' + cimgen.name(rng, nonascii=0)])
                    for _ in range(n))


def special_string(rng):
    n = rng.randint(1, 8)
    return ''.join(rng.choice(SPECIAL) if rng.random() < 0.5
                   else rng.choice(cimgen.PLAIN) for _ in range(n))


def lookalike_string(rng):
    """Strings that look like another key type or like a URI / datetime."""
    r = rng.random()
    if r < 0.25:
        return rng.choice(['123', '-5', '0x1F', '101b', '1.5', '1e5', 'true',
                           'FALSE', 'INF', '-INF', 'NaN', '+7', '017', ''])
    if r < 0.5:
        s = str(cimgen.datetime_value(rng))
        q = rng.random()
        if q < 0.5:
            return s                          # reads as a datetime (tagged)
        if q < 0.7:
            return s[:-1]                     # near miss
        if q < 0.85:
            return s.replace('+', '|').replace(':', ';')
        return ' ' + s
    if r < 0.85:
        inner = gen_instancename(rng, 2, simple=True)
        fmt = rng.choice(FORMATS)
        try:
            s = inner.to_wbem_uri(fmt)        # reads as a URI (tagged)
        except CaseTimeout:
            raise
        except Exception:  # pylint: disable=broad-except
            s = 'Foo.k=1'
        if rng.random() < 0.3:
            s = s[:rng.randint(0, len(s))]    # near miss
        return s
    return rng.choice(['a.b', 'x=y', 'C.k=', 'Foo.k=1', 'ns:C.k=1,j=2',
                       '/:C.k="v"', '//h/n:C.k=1', 'C.k="a",', '.k=1'])


def key_string(rng):
    r = rng.random()
    if r < 0.35:
        return cimgen.string(rng)
    if r < 0.7:
        return special_string(rng)
    if r < 0.85:
        return lookalike_string(rng)
    return ''.join(rng.choice(cimgen.PLAIN) for _ in range(rng.randint(1, 12)))


def key_float(rng):
    r = rng.random()
    if r < 0.35:
        return rng.choice([0.0, -0.0, 1.0, -1.0, 1.5, -2.25, 1e16, 1e-7, 1e22,
                           1e100, -1e16, 5e-324, 1.7976931348623157e308,
                           123456789012345680.0, 1e15, 0.1, 2.5e-5, 1e-5,
                           float(2 ** 53), float(10 ** rng.randint(0, 25))])
    if r < 0.5:
        return rng.choice([float('inf'), float('-inf'), float('nan')])
    if r < 0.75:
        return float(rng.randint(-10 ** 6, 10 ** 6))
    return rng.uniform(-1e6, 1e6) * 10 ** rng.randint(-20, 20)


KEY_KINDS = ['string', 'string', 'string', 'string', 'char16', 'boolean',
             'int', 'cimint', 'cimint', 'float', 'float', 'real', 'real',
             'datetime', 'reference', 'reference']


def gen_keyvalue(rng, depth, simple=False):
    k = rng.choice(KEY_KINDS)
    if simple and k in ('reference', 'real'):
        k = 'string'
    if k == 'reference':
        if depth >= 3:
            k = 'string'
        else:
            return gen_instancename(rng, depth + 1)
    if k == 'string':
        return key_string(rng) if not simple else rng.choice(
            ['v', 'a b', 'x"y', 'q\\', '1'])
    if k == 'char16':
        return Char16(cimgen.char16_value(rng))
    if k == 'boolean':
        return rng.random() < 0.5
    if k == 'int':
        return rng.choice([0, 1, -1, 255, 65536, -2 ** 63, 2 ** 64 - 1,
                           rng.randint(-10 ** 9, 10 ** 9), 10 ** 30])
    if k == 'cimint':
        return cimgen.int_value(rng, rng.choice(list(cimgen.INT_TYPES)))
    if k == 'float':
        return key_float(rng)
    if k == 'real':
        v = key_float(rng)
        return Real64(v) if rng.random() < 0.5 else Real32(cimgen.f32(v))
    return cimgen.datetime_value(rng)


def gen_instancename(rng, depth=0, simple=False):
    nkeys = rng.choice([1, 1, 2, 2, 3, 4, 6]) if depth < 2 else \
        rng.choice([1, 1, 2])
    names = cimgen.unique_names(rng, nkeys)
    kbs = [(n, gen_keyvalue(rng, depth, simple)) for n in names]
    r = rng.random()
    ns = gen_namespace(rng) if r < 0.7 else None
    h = None
    if ns is not None and rng.random() < 0.45:
        h = gen_host(rng)
    elif ns is None and rng.random() < 0.12:
        h = gen_host(rng)          # host without namespace
    return CIMInstanceName(cimgen.classname(rng), kbs, host=h, namespace=ns)


def gen_classname(rng):
    r = rng.random()
    ns = gen_namespace(rng) if r < 0.75 else None
    h = None
    if ns is not None and rng.random() < 0.5:
        h = gen_host(rng)
    elif ns is None and rng.random() < 0.15:
        h = gen_host(rng)
    return CIMClassName(cimgen.classname(rng), host=h, namespace=ns)


# -------------------------------------------------- analysis of a path -----

def reads_as(s):
    """'uri' / 'datetime' if pywbem itself interprets the raw string so."""
    try:
        CIMInstanceName.from_wbem_uri(s)
        return 'uri'
    except CaseTimeout:
        raise
    except Exception:  # pylint: disable=broad-except
        pass
    try:
        CIMDateTime(s)
        return 'datetime'
    except CaseTimeout:
        raise
    except Exception:  # pylint: disable=broad-except
        pass
    return None


HOST_OK = re.compile(r'^[\w.:@\[\]]*$')


def exponent_without_fraction(v):
    s = repr(float(v))
    return 'e' in s and '.' not in s


def analyse(p, out=None, depth=0):
    """Features and tags of a path, over all nesting levels."""
    if out is None:
        out = {'features': set(), 'tags': set(), 'nkeys': 0, 'depth': 0,
               'special': False}
    out['depth'] = max(out['depth'], depth)
    if p.host is not None:
        if not HOST_OK.match(p.host):
            out['features'].add('host-with-hyphen-or-percent')
        if p.namespace is None:
            out['features'].add('historical.host-without-namespace')
    if isinstance(p, CIMClassName):
        return out
    if depth == 0:
        out['nkeys'] = len(p.keybindings)
    for v in p.keybindings.values():
        if isinstance(v, CIMInstanceName):
            analyse(v, out, depth + 1)
        elif isinstance(v, bool):
            pass
        elif isinstance(v, (float, CIMFloat)):
            if isinstance(v, CIMFloat):
                out['features'].add('real-typed-key')
            if exponent_without_fraction(v):
                out['features'].add('float-exponent-form')
            if v != v:      # pylint: disable=comparison-with-itself
                out['tags'].add('nan')
        elif isinstance(v, str):
            if '\n' in v:
                out['features'].add('string-key-newline')
            if any(c in v for c in '"\\,=\n'):
                out['special'] = True
            if not isinstance(v, Char16):
                r = reads_as(v)
                if r:
                    out['tags'].add('ambiguous-' + r)
        elif isinstance(v, CIMDateTime):
            if len(str(v)) != 25:
                # e.g. CIMDateTime('99999999999999.999999:000') is accepted
                # and normalised to 100000003 days, which no CIM datetime
                # string can express (CIMDateTime's business: C06)
                out['tags'].add('ambiguous-inexpressible-datetime')
    return out


def sanitize(p, remove):
    """p with the features in `remove` taken out, at all nesting levels."""
    host, ns = p.host, p.namespace
    if host is not None and 'host-with-hyphen-or-percent' in remove:
        host = re.sub(r'[^\w.:@\[\]]', 'x', host)
    if host is not None and ns is None and \
            'historical.host-without-namespace' in remove:
        ns = 'ns'
    if isinstance(p, CIMClassName):
        return CIMClassName(p.classname, host=host, namespace=ns)
    kbs = []
    for k, v in p.keybindings.items():
        if isinstance(v, CIMInstanceName):
            v = sanitize(v, remove)
        elif isinstance(v, bool):
            pass
        elif isinstance(v, (float, CIMFloat)):
            if 'float-exponent-form' in remove and \
                    exponent_without_fraction(v):
                v = type(v)(1234.5)
            if 'real-typed-key' in remove and isinstance(v, CIMFloat):
                v = float(v)
        elif isinstance(v, str) and 'string-key-newline' in remove and \
                '\n' in v:
            v = type(v)(v.replace('\n', ' ')) if not isinstance(v, Char16) \
                else Char16(' ')
        kbs.append((k, v))
    return CIMInstanceName(p.classname, kbs, host=host, namespace=ns)


def without_hosts(p):
    """What the 'cimobject' format carries: the path without its own host
    (DSP0200 CIMObject is a *local* path).  Paths inside reference-typed
    keys are key values and stay complete (amended after the repair of
    /repo commit 025e39a; before it the format dropped nested hosts too,
    which made the CIMObject header name another key value than the body)."""
    if isinstance(p, CIMClassName):
        return CIMClassName(p.classname, namespace=p.namespace)
    return CIMInstanceName(p.classname, list(p.keybindings.items()),
                           namespace=p.namespace)


def lval(v, lower):
    if isinstance(v, CIMInstanceName):
        return lfp(v, lower)
    if isinstance(v, bool):
        return ('bool', v)
    if isinstance(v, (int, CIMInt)):
        return ('int', int(v))
    if isinstance(v, (float, CIMFloat)):
        return ('real', fbits(float(v)))
    if isinstance(v, str):
        return ('str', str(v))
    if isinstance(v, CIMDateTime):
        return ('datetime', str(v), v.precision)
    return ('other', repr(v))


def lfp(p, lower):
    """Loose fingerprint: what an untyped WBEM URI can carry."""
    def n(s):
        return s.lower() if (lower and s is not None) else s
    if isinstance(p, CIMClassName):
        return ('classpath', n(p.classname), n(p.host), n(p.namespace))
    items = sorted((n(k), lval(v, lower)) for k, v in p.keybindings.items())
    return ('instancepath', n(p.classname), n(p.host), n(p.namespace),
            tuple(items))


def component_of_difference(a, b):
    """Which component of two loose fingerprints differs first."""
    if a[0] != b[0]:
        return 'kind'
    for i, name in ((1, 'classname'), (2, 'host'), (3, 'namespace')):
        if a[i] != b[i]:
            return name
    if a[0] == 'classpath':
        return 'none'
    ka, kb = [k for k, _ in a[4]], [k for k, _ in b[4]]
    if ka != kb:
        return 'keybinding-names'
    for (k, va), (_, vb) in zip(a[4], b[4]):
        if va != vb:
            if va[0] == 'instancepath' and vb[0] == 'instancepath':
                return 'reference/' + component_of_difference(va, vb)
            return '%s-key%s' % (va[0], '' if va[0] == vb[0]
                                 else '-read-as-' + vb[0])
    return 'none'


# -------------------------------------------------------- round trip -------

REJECT_STEMS = [
    ('Invalid format for an instance path', 'instance-path-syntax'),
    ('Invalid format for a class path', 'class-path-syntax'),
    ('invalid format for its keybindings', 'keybindings-syntax'),
    ('invalid value format in a keybinding', 'keybinding-value'),
    ('char16 keybinding with an incorrect length', 'char16-length'),
]


def roundtrip(p, fmt, tags, header=False):
    """None if the round trip of p in format fmt holds, else
    (key, what, extra-detail).  Exceptions other than ValueError from the
    parser are returned as ('exc', exception, stage)."""
    cls = type(p)
    try:
        if header:
            u = get_cimobject_header(p)
        elif fmt == 'str':
            u = str(p)
        else:
            u = p.to_wbem_uri(format=fmt)
    except CaseTimeout:
        raise
    except Exception as exc:  # pylint: disable=broad-except
        return ('exc', exc, 'print')
    if not isinstance(u, str):
        return ('uri.printed-value-not-str', 'printer returned %r' % type(u),
                {'uri': repr(u)})
    try:
        q = cls.from_wbem_uri(u)
    except CaseTimeout:
        raise
    except ValueError as exc:
        msg = str(exc)
        stem = next((slug for text, slug in REJECT_STEMS if text in msg),
                    'other')
        return ('uri.printed-uri-rejected.%s' % stem,
                'the %s URI pywbem printed is rejected by its own parser: %s'
                % (fmt, short(msg, 300)), {'uri': u})
    except Exception as exc:  # pylint: disable=broad-except
        return ('exc', exc, 'parse', u)
    if type(q) is not cls:   # pylint: disable=unidiomatic-typecheck
        return ('uri.parsed-type-wrong', 'from_wbem_uri returned %r'
                % type(q), {'uri': u})
    if any(t.startswith('ambiguous') for t in tags):
        return None          # documented limit: printed and accepted
    exp = without_hosts(p) if (fmt == 'cimobject' or header) else p
    lower = fmt == 'canonical'
    fe, fq = lfp(exp, lower), lfp(q, lower)
    if 'nan' not in tags:
        try:
            same = (q == exp)
        except CaseTimeout:
            raise
        except Exception as exc:  # pylint: disable=broad-except
            return ('exc', exc, 'eq', u)
        if same is not True:
            return ('uri.roundtrip.not-equal.%s'
                    % component_of_difference(fe, fq),
                    'from_wbem_uri(to_wbem_uri(%s)) != original path' % fmt,
                    {'uri': u, 'parsed': short(repr(q), 1200)})
    if fe != fq:
        return ('uri.roundtrip.inexact.%s' % component_of_difference(fe, fq),
                'the parsed %s URI equals the path under == but differs in '
                'what an untyped URI carries (exact names / string values / '
                'numeric values)' % fmt,
                {'uri': u, 'parsed': short(repr(q), 1200)})
    # every parse gives a path of its own: what the caller does to an earlier
    # result must not show in a later parse of the same text
    nested = isinstance(q, CIMInstanceName) and any(
        isinstance(v, CIMInstanceName) for v in q.keybindings.values())
    if nested or len(u) % 4 == 0:
        scribble(q)
        try:
            q2 = cls.from_wbem_uri(u)
            f2 = lfp(q2, lower)
        except CaseTimeout:
            raise
        except Exception as exc:  # pylint: disable=broad-except
            return ('exc', exc, 'parse-again', u)
        PARSED_AGAIN[0] += 1
        if f2 != fq:
            return ('uri.parse.later-result-depends-on-earlier-result.%s'
                    % component_of_difference(fq, f2),
                    'the same %s URI text parsed a second time gives another '
                    'path after the first result was changed in place' % fmt,
                    {'uri': u, 'second': short(repr(q2), 1200)})
    return None


PARSED_AGAIN = [0]


def scribble(q, depth=0):
    """Change every part of a parsed path in place."""
    if isinstance(q, CIMInstanceName):
        for v in list(q.keybindings.values()):
            if isinstance(v, CIMInstanceName) and depth < 6:
                scribble(v, depth + 1)
        q.keybindings['ScribbledByHarness'] = 1
    q.host = 'scribbled.example'
    q.namespace = 'scribbled/ns'
    q.classname = 'Scribbled'


FEATURE_KEYS = {
    'real-typed-key': 'uri.real-typed-key.repr',
    'float-exponent-form': 'uri.float-exponent-form.rejected',
    'host-with-hyphen-or-percent': 'uri.host-with-hyphen.rejected',
    'string-key-newline': 'uri.string-key-newline.rejected',
    'historical.host-without-namespace':
        'uri.historical.host-without-namespace.rejected',
}


def report(ctx, res, p, fmt, detail, prefix=''):
    det = dict(detail, format=fmt, path=short(repr(p), 1500))
    if res[0] == 'exc':
        det['stage'] = res[2]
        if len(res) > 3:
            det['uri'] = res[3]
        ctx.unexpected(res[1], '%s stage of the %s round trip raised'
                       % (res[2], fmt), det, prefix=prefix + res[2] + ':')
    else:
        det.update(res[2])
        ctx.violation(prefix + res[0], res[1], det)


def check_format(ctx, p, fmt, info, detail, header=False):
    """One (path, format) evaluation incl. attribution of a failure."""
    ctx.evaluated()
    tags = info['tags']
    res = roundtrip(p, fmt, tags, header)
    if res is None:
        ctx.count('roundtrip-compared' if not any(
            t.startswith('ambiguous') for t in tags) else 'roundtrip-accepted')
        return True
    feats = info['features']
    if not feats:
        report(ctx, res, p, fmt, detail)
        return False
    clean = sanitize(p, feats)
    cinfo = analyse(clean)
    res_clean = roundtrip(clean, fmt, cinfo['tags'], header)
    if res_clean is not None:
        # fails even without any known feature: a different mechanism
        report(ctx, res_clean, clean, fmt, dict(detail, sanitized_from=short(
            repr(p), 800)))
        return False
    causal = []
    for f in sorted(feats):
        only_f = sanitize(p, feats - {f})
        r = roundtrip(only_f, fmt, analyse(only_f)['tags'], header)
        if r is not None:
            causal.append((f, r, only_f))
    if not causal:
        # only the combination fails
        report(ctx, res, p, fmt, dict(detail, features=sorted(feats)),
               prefix='combination:')
        return False
    for f, r, only_f in causal:
        det = dict(detail, format=fmt, path=short(repr(only_f), 1500),
                   feature=f, observed=r[0] if r[0] != 'exc' else repr(r[1]))
        if r[0] != 'exc':
            det.update(r[2])
            ctx.violation(FEATURE_KEYS[f], r[1], det)
        else:
            report(ctx, r, only_f, fmt, detail, prefix=f + ':')
    return False


def check_canonical(ctx, rng, p, detail):
    try:
        u0 = p.to_wbem_uri(format='canonical')
    except CaseTimeout:
        raise
    except Exception:  # pylint: disable=broad-except
        return        # reported by the round trip
    for what, x in (('case', Equiv(rng, True, False, False)),
                    ('order', Equiv(rng, False, True, False)),
                    ('case+order', Equiv(rng, True, True, False))):
        if what != 'case' and isinstance(p, CIMClassName):
            continue
        e = rebuild(p, x)
        ctx.evaluated()
        try:
            u = e.to_wbem_uri(format='canonical')
        except CaseTimeout:
            raise
        except Exception as exc:  # pylint: disable=broad-except
            ctx.unexpected(exc, 'canonical URI of an equivalent path raised',
                           dict(detail, equivalent=short(repr(e), 1200)),
                           prefix='print:')
            continue
        ctx.count('canonical-pairs')
        if u != u0:
            ctx.violation('uri.canonical.differs-for-equal-paths.%s' % what,
                          'two paths that differ only in %s have different '
                          'canonical URIs' % what,
                          dict(detail, path=short(repr(p), 1200),
                               equivalent=short(repr(e), 1200),
                               uri=u0, uri_equivalent=u))


def check_path(ctx, rng, p, origin):
    info = analyse(p)
    detail = {'origin': origin}
    nontrivial = info['nkeys'] >= 2 or info['depth'] >= 1 or info['special']
    if info['depth'] >= 1:
        ctx.count('nested-reference-paths')
    if any(t.startswith('ambiguous') for t in info['tags']):
        ctx.count('tagged-ambiguous')
    if 'nan' in info['tags']:
        ctx.count('paths-with-nan')
    for f in info['features']:
        ctx.count('feature:' + f)
    ok = True
    for fmt in FORMATS + ('str',):
        ok = check_format(ctx, p, fmt, info, detail) and ok
    ok = check_format(ctx, p, 'cimobject', info, detail, header=True) and ok
    # the header value is the cimobject format
    try:
        if get_cimobject_header(p) != p.to_wbem_uri(format='cimobject'):
            ctx.violation('cimobject-header.differs-from-cimobject-format',
                          'get_cimobject_header(p) != p.to_wbem_uri'
                          '("cimobject")', dict(detail, path=repr(p)))
        if str(p) != p.to_wbem_uri(format='historical'):
            ctx.violation('str.differs-from-historical-format',
                          'str(p) != p.to_wbem_uri("historical")',
                          dict(detail, path=repr(p)))
    except CaseTimeout:
        raise
    except Exception:  # pylint: disable=broad-except
        pass           # reported by the round trip
    check_canonical(ctx, rng, p, detail)
    ctx.outcome('path-ok' if ok else 'path-failed')
    if nontrivial:
        try:
            cu = p.to_wbem_uri(format='canonical')
        except CaseTimeout:
            raise
        except Exception:  # pylint: disable=broad-except
            cu = repr(p)
        for fmt in FORMATS:
            ctx.nontrivial(h64((cu, fmt)))
    return info


# -------------------------------------------------------------- text -------

FRAG_SCHEME = ['', '', 'http:', 'https:', 'cimxml-wbem:', 'HTTP:', 'foo-bar:',
               'x:', ':', '1:', 'http', 'h\u00e4:']
FRAG_AUTH = ['', '', '//h', '//h:5988', '//user@h', '//[::1]', '//[::1',
             '//', '///', '//a-b', '//h h', '//h/', '//\u00e4.com', '//:',
             '//@', '//[]']
FRAG_NS = ['', '/', '/root', '/root/cimv2', 'root/cimv2', '/root/', '//root',
           '/r oot', '/root//x', '/\u00e4', '/1', 'a/b/c/d/e']
FRAG_CLS = ['', ':C', ':CIM_Foo', 'CIM_Foo', ':C D', ':', '::C', ':C:', ':1',
            ':\u00c4', ':C\n', ':C.D']
FRAG_KEY = ['k', 'K2', '_', '1', '\u00e4', 'k k', '', 'k.j', 'k-1', '"k"']
FRAG_VAL = ['1', '-1', '+1', '0', '00', '017', '0x1F', '0X', '101b', '12b',
            '1.5', '.5', '1.', '1e5', '1.5e5', '1.5E+30', '1.5e', '1e-07',
            'inf', '-INF', 'NaN', '+INF', 'true', 'FALSE', 'tRuE', 'yes',
            '"x"', '""', '"', '"x', 'x"', '"x""y"', '"x\\"', '"x\\\\"',
            '"x\\y"', '"\\"', "'a'", "''", "'ab'", "'\\''", "'", "'\\'",
            '"a,b=c"', '"a\nb"', "'\n'", 'abc', 'a b', '\u0661\u0662',
            '\u0661.\u0665', '20140924193040.654000+120',
            '"20140924193040.654000+120"', '20140924193040.654000|120',
            '2014092419304*.******+120', '20140924193040.654000+12',
            '12345678121212.123456:000', '12345678121212.123456:001',
            '99999999999999.999999:000', '00000000000000.000000+000',
            '\u0662\u0660140924193040.654000+120', '********193040.654000+120',
            '20141324193040.654000+120', '"/:C.k=1"', '"C.k=\\"v\\""',
            '"//h/n:C.k=\\"/:D.j=\\\\\\"x\\\\\\"\\""', '"C."', '"C.k="',
            '"C.k=\'ab\'"', '"C.k=1e400"', '1e400', '1.0e400',
            '9' * 40, '-' + '9' * 400, '0x' + 'F' * 40, '1' * 70 + 'b',
            '1.5e+999999', '0.' + '0' * 400 + '1', '\x00', '\ud800']


def assembled_text(rng):
    kbs = ','.join('%s=%s' % (rng.choice(FRAG_KEY), rng.choice(FRAG_VAL))
                   for _ in range(rng.choice([0, 1, 1, 2, 3])))
    sep = rng.choice(['.', '.', '.', '', '..', ':'])
    return rng.choice(FRAG_SCHEME) + rng.choice(FRAG_AUTH) + \
        rng.choice(FRAG_NS) + rng.choice(FRAG_CLS) + \
        ((sep + kbs) if kbs or rng.random() < 0.2 else '')


MUT_CHARS = '"\'\\,=.:/[]@ \n\t*+-|%#?\u00e4\u0661\x00'


def mutated_text(rng):
    p = gen_instancename(rng) if rng.random() < 0.8 else gen_classname(rng)
    try:
        s = p.to_wbem_uri(format=rng.choice(FORMATS))
    except CaseTimeout:
        raise
    except Exception:  # pylint: disable=broad-except
        s = 'C.k=1'
    for _ in range(rng.choice([1, 1, 2, 3])):
        if not s:
            break
        op = rng.random()
        i = rng.randrange(len(s))
        if op < 0.3:
            s = s[:i] + s[i + 1:]
        elif op < 0.6:
            s = s[:i] + rng.choice(MUT_CHARS) + s[i:]
        elif op < 0.75:
            s = s[:i] + rng.choice(MUT_CHARS) + s[i + 1:]
        elif op < 0.85:
            j = rng.randrange(len(s))
            i, j = min(i, j), max(i, j)
            s = s[:i] + s[i:j] * 2 + s[j:]
        elif op < 0.93:
            s = s[:i]
        else:
            s = s[i:]
    return s


def long_text(rng):
    n = rng.choice([200, 1000, 5000, 20000])
    r = rng.randrange(14)
    tail = rng.choice(['', '!', '"', ',', '=', '\\'])
    if r == 0:
        return '/' + 'a/' * n + tail + ':C.k=1'
    if r == 1:
        return 'C.k="' + '\\' * n + tail
    if r == 2:
        return 'C.k="' + 'x\\' * n + '"' + tail
    if r == 3:
        return 'C.' + 'k=1,' * n + tail
    if r == 4:
        return 'C.' + ','.join('k%d=%d' % (i, i) for i in range(n // 4)) + tail
    if r == 5:
        return 'C.k=' + '1' * n + tail
    if r == 6:
        return 'C.k="' + 'a' * n + tail
    if r == 7:
        return 'a' * n + tail
    if r == 8:
        return '//' + 'h.' * n + '/n:C.k=1' + tail
    if r == 9:
        return 'C.k=' + "'" * n + tail
    if r == 10:
        return 'C.k=' + '"' * n + tail
    if r == 11:
        # nested references, each level doubles the escaping
        s = 'D.j=1'
        for _ in range(rng.choice([2, 4, 6, 8])):
            s = 'C.k="%s"' % s.replace('\\', '\\\\').replace('"', '\\"')
            if len(s) > 200000:
                break
        return s + tail
    if r == 12:
        return ('w' * (n // 10) + '/') * 10 + tail
    return 'C.k=' + ('a' * 10 + ',') * (n // 10) + tail


def check_text(ctx, rng, text, origin):
    accepted = []
    for cls in (CIMInstanceName, CIMClassName):
        ctx.evaluated()
        try:
            q = cls.from_wbem_uri(text)
        except CaseTimeout:
            raise
        except ValueError:
            ctx.count('text-rejected')
            continue
        except Exception as exc:  # pylint: disable=broad-except
            ctx.unexpected(exc, '%s.from_wbem_uri(text) raised something '
                           'other than ValueError' % cls.__name__,
                           {'origin': origin, 'text': short(text, 600)},
                           prefix='parse-text:')
            ctx.outcome('text-bad-exception')
            continue
        if type(q) is not cls:   # pylint: disable=unidiomatic-typecheck
            ctx.violation('parse-text.returned-wrong-type',
                          '%s.from_wbem_uri returned %r'
                          % (cls.__name__, type(q)), {'text': short(text)})
            continue
        ctx.count('text-accepted')
        accepted.append(q)
    if not text.isalnum():
        ctx.nontrivial(h64(('text', text)))
    return accepted


# -------------------------------------------------------------- case -------

def run_case(ctx, i, rng):
    r = i % 10
    if r < 4:
        kind = 'instancepath'
    elif r < 5:
        kind = 'classpath'
    elif r < 7:
        kind = 'text-assembled'
    elif r < 9:
        kind = 'text-mutated'
    else:
        kind = 'text-random' if rng.random() < 0.7 else 'text-long'
    ctx.cls(kind)
    if kind == 'instancepath':
        p = gen_instancename(rng)
        info = check_path(ctx, rng, p, kind)
        if ctx.evaluations % 211 < 8 and len(ctx.samples) < 3:
            ctx.sample({'kind': kind, 'path': short(repr(p), 400),
                        'features': sorted(info['features']),
                        'tags': sorted(info['tags'])})
        return
    if kind == 'classpath':
        check_path(ctx, rng, gen_classname(rng), kind)
        return
    if kind == 'text-assembled':
        text = assembled_text(rng)
    elif kind == 'text-mutated':
        text = mutated_text(rng)
    elif kind == 'text-long':
        text = long_text(rng)
    else:
        text = cimgen.string(rng, maxlen=40) if rng.random() < 0.6 else \
            special_string(rng) + rng.choice(['', '.k=1', ':C', '.k="']) + \
            special_string(rng)
    for q in check_text(ctx, rng, text, kind):
        if len(text) < 3000:
            # a path that came out of the parser is a path like any other
            check_path(ctx, rng, q, 'parsed-from-' + kind)
    if len(ctx.samples) < 5 and ctx.evaluations % 97 < 4:
        ctx.sample({'kind': kind, 'text': short(text, 200)})


# ------------------------------------------------ harvested objects (thorough)

def _judge_harvested(ctx, cls, obj):
    """The URI oracle of this check on a path that the repository's tests
    constructed."""
    import random
    from vf.harvest import in_domain
    if not in_domain(obj, []):
        ctx.outcome('harvested-outside-domain')
        ctx.count('outside-domain')
        return
    def keyless(p):
        return isinstance(p, CIMInstanceName) and (
            len(p.keybindings) == 0 or
            any(keyless(v) for v in p.keybindings.values()))

    if keyless(obj):
        # pywbem warns that DSP0004 does not permit them; their URI is that
        # of a class path
        ctx.outcome('harvested-instance-path-without-keys')
        ctx.count('instance-path-without-keys')
        return
    rng = random.Random(repr(obj))
    check_path(ctx, rng, obj, 'harvested-' + cls)


def post_run(tier, seed, workdir):
    """Thorough tier: the same oracle on every instance/class path that the
    repository's own unit tests construct (vf/harvest.py)."""
    if tier != 'thorough':
        return {}
    from vf.harvest import judge_harvest
    return judge_harvest('C07', tier, seed, workdir, _judge_harvested,
                         ['CIMInstanceName', 'CIMClassName'])


def replay_harvested(ctx, rec):
    from vf.harvest import replay_harvested as rh
    rh(ctx, rec, _judge_harvested)
