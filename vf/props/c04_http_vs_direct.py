"""C04 - Operations over HTTP/CIM-XML equal the same operations done directly.

Differential monitor over generated call sequences: path X = real
WBEMConnection -> CIM-XML request -> facade server (vf.xmlserver) ->
FakedWBEMConnection repository A -> CIM-XML response -> client parsing;
path D = the same public method on a FakedWBEMConnection over an identical
repository B.  Recording wrappers on both repositories' object-level entry
points show what the server saw.
"""
import copy
import datetime
import random
import warnings

import pywbem
from pywbem import CIMError, CIMInstance, CIMClass, CIMInstanceName, \
    CIMClassName, CIMInt

from vf import cimgen, ops, simplerepo, transport, xmlserver
from vf.fingerprint import fp, diff, crnorm
from vf.reach import Reach, CIMIntInvariant
from vf.runner import h64, short, CaseTimeout, exc_key

META = dict(
    id='C04',
    level='exploration',
    technique='runtime monitoring: differential monitor (HTTP/CIM-XML path '
              'through a CIM-XML facade server vs direct object-level path on '
              'an identical repository) with server-side recording wrappers '
              'and repository dump comparison',
    level_text='Seeded call sequences (8-30 calls over all intrinsic '
               'operations incl. writes, association, open/pull/close, Iter, '
               'and InvokeMethod with every argument shape against echo '
               'methods for all CIM types) run on two identical generated '
               'repositories, once through the real request/response path and '
               'once directly; per step the operation name, namespace and '
               'parameters seen by the server, the outcome (objects or '
               'CIMError code) and finally the whole repository content must '
               'agree. Held on K sequences.',
    level_note='Trusted: the facade server vf/xmlserver.py (its responses are '
               'DTD-validated in C02/C03 and decoded by the real client), the '
               'DSP0201-default normaliser in vf/fingerprint.py, the mock '
               'server as the common executor of both paths.',
    design_ref='DESIGN.md section 3, C04',
    rule='case = one call sequence on a generated repository; each step is an '
         'evaluation; non-trivial = step that reached the repository on the '
         'direct path; distinct by (operation, argument-shape signature, '
         'outcome class)',
    assumptions=['path.host of returned objects is compared only where both '
                 'paths define it (the wire format always carries a host in '
                 'INSTANCEPATH/CLASSPATH, the mock leaves it None on pull)'],
    min_eval=300, min_distinct=60,
    required_events=['server-seen-compared', 'outcome-compared',
                     'server-seen-vs-caller-compared',
                     'repo-dump-compared', 'TupleParser.parse_imethodcall',
                     'TupleParser.parse_methodcall'],
)

REACH = ['pywbem._tupleparse:TupleParser.parse_imethodcall',
         'pywbem._tupleparse:TupleParser.parse_methodcall',
         'pywbem._tupleparse:TupleParser.parse_iparamvalue',
         'pywbem._tupleparse:TupleParser.parse_paramvalue',
         'pywbem._cim_operations:WBEMConnection._imethodcall',
         'pywbem._cim_operations:WBEMConnection._methodcall']


def plan(tier):
    if tier == 'quick':
        return dict(cases=400, time_s=150, case_cpu_s=120)
    return dict(cases=12000, time_s=540, case_cpu_s=240)


def setup_worker(ctx):
    warnings.simplefilter('ignore')
    ctx.state['reach'] = Reach(REACH).start()
    ctx.state['inv'] = CIMIntInvariant(ctx).start()


def finish_worker(ctx):
    ctx.state['reach'].flush(ctx)
    ctx.state['inv'].flush(ctx)
    ctx.state['reach'].stop()
    ctx.state['inv'].stop()


class Recorder:
    """Wraps the object-level entry points of a FakedWBEMConnection."""

    def __init__(self, fconn):
        self.calls = []
        self.fconn = fconn
        orig_i = fconn._mock_imethodcall
        orig_m = fconn._meth_InvokeMethod

        def rec_i(methodname, namespace, **params):
            self.calls.append(('imethod', methodname, namespace, {
                k: copy.deepcopy(v) for k, v in params.items()
                if v is not None and k not in ('has_return_value',
                                               'has_out_params',
                                               'response_params_rqd')}))
            return orig_i(methodname, namespace, **params)

        def rec_m(methodname, localobject, params):
            self.calls.append(('method', methodname,
                               copy.deepcopy(localobject),
                               copy.deepcopy(dict(params.items()))))
            return orig_m(methodname, localobject, params)

        fconn._mock_imethodcall = rec_i
        fconn._imethodcall = rec_i
        fconn._meth_InvokeMethod = rec_m

    def take(self):
        c, self.calls = self.calls, []
        return c


# ---------------------------------------------------------------------------
# Independent statement of "the server sees exactly the operation name, target
# namespace (connection default applied when omitted) and parameter values the
# caller supplied, with None-valued parameters omitted".  The direct path runs
# the same operation methods of WBEMConnection as the HTTP path, so a defect
# in the shared argument marshalling would be invisible to the differential
# comparison alone.

import inspect

TARGET_PARAMS = ('ClassName', 'InstanceName', 'ObjectName')
CLASSNAME_PARAMS = ('ClassName', 'AssocClass', 'ResultClass')


def _strip_path(p):
    p = p.copy()
    p.host = None
    p.namespace = None
    return p


def expected_seen(op, args, kw, default_ns):
    """-> ('imethod', op, namespace, params) or None if the model does not
    cover the call (Iter operations, InvokeMethod, invalid argument types)."""
    if op.startswith('Iter') or op in ('InvokeMethod', 'ExportIndication'):
        return None
    sig = inspect.signature(getattr(pywbem.WBEMConnection, op))
    try:
        bound = sig.bind(None, *args, **kw)
    except TypeError:
        return None
    b = dict(bound.arguments)
    b.pop('self', None)
    ns = b.pop('namespace', None)
    if isinstance(ns, str):
        ns = ns.strip('/')
    params = {}
    if 'context' in b:
        c = b.pop('context')
        params['EnumerationContext'] = c[0]
        ns = c[1]
    for name, v in b.items():
        if v is None:
            continue
        if name in ('InstanceName', 'ObjectName') or (
                name == 'ClassName'):
            if isinstance(v, (CIMInstanceName, CIMClassName)):
                if ns is None:
                    ns = v.namespace
                v = _strip_path(v)
                if name in CLASSNAME_PARAMS and \
                        not isinstance(v, CIMClassName):
                    return None
            elif isinstance(v, str):
                v = CIMClassName(v)
            else:
                return None
        elif name in CLASSNAME_PARAMS:
            if isinstance(v, CIMClassName):
                v = CIMClassName(v.classname)
            elif isinstance(v, str):
                v = CIMClassName(v)
            else:
                return None
        elif name == 'ModifiedInstance':
            if v.path is None:
                return None
            if ns is None:
                ns = v.path.namespace
            v = v.copy()
            v.path = _strip_path(v.path)
        elif name == 'NewInstance':
            if ns is None and v.path is not None:
                ns = v.path.namespace
            v = v.copy()
            v.path = None
        elif name in ('NewClass', 'ModifiedClass'):
            if ns is None and v.path is not None:
                ns = v.path.namespace
            v = v.copy()
            v.path = None
        elif name == 'PropertyList':
            if isinstance(v, str):
                v = [v]
            elif isinstance(v, (list, tuple)):
                v = list(v)
            else:
                return None
        params[name] = v
    if ns is None:
        ns = default_ns
    return ('imethod', op, ns, params)


def seen_fp(call):
    """Fingerprint of what the server saw."""
    kind, name, target, params = call
    items = []
    for k in sorted(params, key=lambda s: s.lower()):
        v = params[k]
        if k.lower() in xmlserver.INT_PARAMS and isinstance(v, int):
            v = int(v)
        if k.lower() == 'enumerationcontext':
            v = '<context>'
        if isinstance(v, pywbem.CIMParameter):
            # name, type, value, array-ness and embedded kind are what a
            # PARAMVALUE carries
            items.append((k.lower(), ('param', v.type, bool(v.is_array)
                                      if v.value is not None else None,
                                      fp(v.value, wire=True,
                                         char16_as_str=True))))
            continue
        if isinstance(v, tuple):
            v = list(v)
        items.append((k.lower(), fp(v, wire=True, ignore_host=True)))
    t = fp(target, ignore_host=True) if not isinstance(target, str) \
        else ('ns', target)
    return (kind, name, t, tuple(items))


def result_fp(res):
    if hasattr(res, 'eos') and hasattr(res, 'context'):
        objs = getattr(res, 'instances', None)
        if objs is None:
            objs = getattr(res, 'paths', None)
        c = res.context
        extra = getattr(res, 'query_result_class', None)
        return ('pull', fp(objs, wire=True, ignore_host=True), res.eos,
                None if c is None else ('ctx', c[1]),
                fp(extra, wire=True) if extra is not None else None)
    if isinstance(res, tuple) and len(res) == 2 and \
            hasattr(res[1], 'items') and not isinstance(res[1], CIMClass):
        rv, out = res
        # a char16 return value or output parameter may be a str or a Char16
        return ('invoke', fp(rv, wire=True, char16_as_str=True),
                tuple(sorted((k.lower(), fp(v, wire=True, ignore_host=True,
                                            char16_as_str=True))
                             for k, v in out.items())))
    return fp(res, wire=True, ignore_host=True)


def sort_key(x):
    # CR-normalised, so that the known CR->LF defect does not change the
    # pairing of the elements of two result lists
    return repr(crnorm(x))


def unordered(rfp):
    """Enumeration results carry no defined order: compare as multisets."""
    if isinstance(rfp, tuple) and rfp and rfp[0] == 'list':
        return ('list', tuple(sorted(rfp[1], key=sort_key)))
    if isinstance(rfp, tuple) and rfp and rfp[0] == 'pull' and \
            isinstance(rfp[1], tuple) and rfp[1] and rfp[1][0] == 'list':
        return ('pull', ('list', tuple(sorted(rfp[1][1], key=sort_key)))) \
            + rfp[2:]
    return rfp


def dump(fconn):
    out = []
    repo = fconn.cimrepository
    for ns in sorted(repo.namespaces, key=lambda s: s.lower()):
        cls = sorted((fp(c, wire=True, ignore_host=True)
                      for c in repo.get_class_store(ns).iter_values()),
                     key=sort_key)
        inst = sorted((fp(i, wire=True, ignore_host=True)
                       for i in repo.get_instance_store(ns).iter_values()),
                      key=sort_key)
        qual = sorted((fp(q, wire=True)
                       for q in repo.get_qualifier_store(ns).iter_values()),
                      key=sort_key)
        out.append((ns.lower(), tuple(cls), tuple(inst), tuple(qual)))
    return tuple(out)


def clone(x):
    """Deep copy of generated arguments.  Python datetime objects are
    immutable and are shared (their MinutesFromUTC tzinfo cannot be copied by
    the copy module); CIM objects never hold them."""
    if isinstance(x, (datetime.datetime, datetime.timedelta)):
        return x
    if type(x) is list:
        return [clone(i) for i in x]
    if type(x) is tuple:
        return tuple(clone(i) for i in x)
    if type(x) is dict:
        return {k: clone(v) for k, v in x.items()}
    return copy.deepcopy(x)


def call(conn, op, args, kw):
    """-> ('ok', value) | ('cimerror', code) | ('exc', exception)"""
    try:
        res = getattr(conn, op)(*args, **kw)
        res = ops.drain(res, 300)
        return ('ok', res)
    except CIMError as exc:
        return ('cimerror', exc.status_code, exc)
    except CaseTimeout:
        raise
    except Exception as exc:  # pylint: disable=broad-except
        return ('exc', exc)


def shape(args, kw):
    def s(v):
        if isinstance(v, (list, tuple)):
            return '[%s]' % (s(v[0]) if v else '')
        return type(v).__name__
    return (tuple(s(a) for a in args), tuple(sorted((k, s(v))
                                                    for k, v in kw.items())))


def report_diff(ctx, key, what, a, b, detail):
    cr = ''
    if crnorm(a) == crnorm(b):
        # only a CR/LF difference: the wire format's known line-end defect
        ctx.violation('roundtrip.string.CR-becomes-LF',
                      what + ' (only CR vs LF differs): ' +
                      '; '.join(diff(a, b, limit=1)), detail)
        return
    ds = diff(crnorm(a), crnorm(b), limit=4)
    ctx.violation(key, what + ': ' + ' | '.join(ds), dict(detail, diffs=ds))


def run_case(ctx, i, rng):
    recipe = rng.getrandbits(48)
    A, infoA = simplerepo.build(random.Random(recipe))
    B, infoB = simplerepo.build(random.Random(recipe))
    dn = rng.choice([None, None, infoA['namespaces'][0],
                     infoA['namespaces'][-1],
                     '/' + infoA['namespaces'][0] + '/'])
    facade = xmlserver.Facade(A, host=B.host)
    try:
        X, adapter = transport.make_conn(facade, url=B.url,
                                         default_namespace=dn)
    except (TypeError, ValueError):
        return
    if dn is not None:
        B.default_namespace = dn
        A.default_namespace = dn
    else:
        A.default_namespace = X.default_namespace
        B.default_namespace = X.default_namespace
    recA, recB = Recorder(A), Recorder(B)
    G = ops.RepoMaterial(rng, infoA)
    ctxX, ctxD = {}, {}     # open enumeration contexts by kind
    sess_ns = {}            # namespace each open session was opened in
    nsteps = rng.randint(8, 30)
    if dump(A) != dump(B):
        ctx.harness_errors.append({'case': i, 'traceback':
                                   'recipe did not build equal repositories'})
        return
    diverged = False
    for step in range(nsteps):
        if diverged:
            # after a disagreement the two repositories may legitimately
            # differ; the rest of the sequence would only echo it
            ctx.outcome('sequence-stopped-after-disagreement')
            break
        op = None
        pullable = [k for k in ctxX if ctxX[k] and ctxD.get(k)]
        if pullable and rng.random() < 0.6:
            kind = rng.choice(pullable)
            op = rng.choice([kind, kind, 'CloseEnumeration'])
        elif not pullable and rng.random() < 0.15:
            # open an enumeration session for the pulls of the next steps
            op = rng.choice(['OpenEnumerateInstances',
                             'OpenEnumerateInstancePaths',
                             'OpenAssociatorInstances',
                             'OpenReferenceInstancePaths'])
        elif rng.random() < 0.25:
            op = 'InvokeMethod'
        while True:
            try:
                opn, args, kw = ops.gen_call(rng, G, op)
            except (TypeError, ValueError):
                continue
            if opn != 'ExportIndication':
                break
            op = None
        if opn.startswith('Open') and rng.random() < 0.5:
            # small first batches keep the enumeration session open, so that
            # several pulls and a close follow it
            kw['MaxObjectCount'] = rng.choice([0, 0, 1])
        # each side gets its own copy of the caller's objects, so that what an
        # operation does to them can be compared as well
        argsX, argsD = clone(args), clone(args)
        kwX, kwD = clone(kw), clone(kw)
        real_ctx = False
        if opn in ('PullInstancesWithPath', 'PullInstancePaths',
                   'PullInstances', 'CloseEnumeration'):
            kind = opn if opn != 'CloseEnumeration' else (
                rng.choice(pullable) if pullable else None)
            if kind and ctxX.get(kind) and ctxD.get(kind):
                argsX = (ctxX[kind],) + tuple(argsX[1:])
                argsD = (ctxD[kind],) + tuple(argsD[1:])
                if opn != 'CloseEnumeration' and rng.random() < 0.6:
                    # small batches: the session lives on for further pulls
                    moc = rng.choice([0, 1, 1, 2])
                    argsX = (argsX[0], moc) + tuple(argsX[2:])
                    argsD = (argsD[0], moc) + tuple(argsD[2:])
                    args = (args[0], moc) + tuple(args[2:])
                real_ctx = True
                ctx.count('real-context:' + opn)
                if sess_ns.get(kind) and sess_ns[kind] != \
                        X.default_namespace:
                    ctx.count('real-context-in-non-default-namespace')
                if opn == 'CloseEnumeration':
                    ctxX[kind] = ctxD[kind] = None
        ctx.evaluated()
        ctx.cls(opn)
        desc = ops.describe(opn, args, kw, 600)
        detail = {'step': step, 'call': desc, 'default_namespace': dn,
                  'recipe': recipe}
        nreq = len(adapter.requests)
        rx = call(X, opn, argsX, kwX)
        rd = call(B, opn, argsD, kwD)
        seenA, seenB = recA.take(), recB.take()
        # ---- (0) what became of the caller's own objects -----------------
        skip = 1 if opn.startswith('Pull') or opn == 'CloseEnumeration' else 0
        afterX = repr((argsX[skip:], sorted(kwX.items())))
        afterD = repr((argsD[skip:], sorted(kwD.items())))
        ctx.count('caller-objects-compared')
        if afterX != afterD:
            before = repr((tuple(args)[skip:], sorted(kw.items())))
            ctx.violation(
                'caller-objects.%s.%s' % (
                    opn, 'changed-over-http' if afterX != before else
                    'changed-directly'),
                '%s left the caller\'s argument objects in different states: '
                'over HTTP %s, directly %s (before the call: %s)'
                % (opn, short(afterX, 400), short(afterD, 400),
                   short(before, 400)), detail)
        if len(adapter.requests) > nreq:
            detail['request'] = short(
                (adapter.requests[-1].body or b'').decode('utf-8', 'replace'),
                1500)
            if facade.replies:
                detail['reply'] = short(
                    facade.replies[-1].decode('utf-8', 'replace'), 1500)
        # ---- (A) what the server saw ------------------------------------
        fa = [seen_fp(c) for c in seenA]
        fb = [seen_fp(c) for c in seenB]
        ctx.count('server-seen-compared')
        if fa != fb and not fa and rx[0] == 'exc':
            # the request never reached the server; the outcome comparison
            # below reports that
            pass
        elif fa != fb:
            if len(fa) != len(fb):
                ctx.violation(
                    'server-seen.number-of-calls.%s' % opn,
                    '%s: server saw %d call(s) over HTTP but %d directly: '
                    '%s vs %s' % (opn, len(fa), len(fb),
                                  [c[1] for c in seenA],
                                  [c[1] for c in seenB]), detail)
            else:
                for a, b in zip(fa, fb):
                    if a != b:
                        report_diff(ctx, 'server-seen.%s' % a[1],
                                    '%s: the server saw different '
                                    'name/namespace/parameters over HTTP '
                                    '(first) than directly (second)' % opn,
                                    a, b, detail)
                        break
        exp = expected_seen(opn, argsX, kw, X.default_namespace)
        if exp is not None and real_ctx and sess_ns.get(kind):
            # a pull or close goes to the namespace in which the session was
            # opened, whatever the context object handed back says
            exp = (exp[0], exp[1], sess_ns[kind], exp[3])
        if opn.startswith('Iter') and seenA and rx[0] != 'exc':
            # an Iter... call reaches the server first as its Open... or as
            # its traditional operation; that first request must carry what
            # the caller supplied (restricted to what that operation takes)
            wire_op = seenA[0][1]
            try:
                wsig = inspect.signature(getattr(pywbem.WBEMConnection,
                                                 wire_op))
                kw2 = {k: v for k, v in kw.items() if k in wsig.parameters}
                if wire_op.startswith('Open') and \
                        'MaxObjectCount' not in kw2:
                    from pywbem.config import DEFAULT_ITER_MAXOBJECTCOUNT
                    kw2['MaxObjectCount'] = DEFAULT_ITER_MAXOBJECTCOUNT
                iexp = expected_seen(wire_op, argsX, kw2,
                                     X.default_namespace)
            except (AttributeError, TypeError, ValueError):
                iexp = None
            if iexp is not None:
                ctx.count('server-seen-vs-caller-compared')
                ctx.count('iter-first-request-compared')
                try:
                    fe = seen_fp(iexp)
                except Exception:  # pylint: disable=broad-except
                    fe = None
                if fe is not None and fe != fa[0]:
                    report_diff(ctx, 'server-seen-vs-caller.%s' % opn,
                                '%s: its first request %s shows the server '
                                '(first) something else than what the caller '
                                'supplied (second)' % (desc, wire_op),
                                fa[0], fe, detail)
        if exp is not None and len(seenA) == 1 and rx[0] != 'exc':
            ctx.count('server-seen-vs-caller-compared')
            try:
                fe = seen_fp(exp)
            except Exception:  # pylint: disable=broad-except
                fe = None
            if fe is not None and fe != fa[0]:
                report_diff(ctx, 'server-seen-vs-caller.%s' % opn,
                            '%s: the server saw (first) something else than '
                            'what the caller supplied (second)' % desc,
                            fa[0], fe, detail)
        if seenB:
            ctx.nontrivial(h64((opn, shape(args, kw), rd[0],
                                rd[1] if rd[0] == 'cimerror' else None)))
        # ---- (B) outcomes ----------------------------------------------
        ctx.count('outcome-compared')
        ctx.outcome('%s/%s' % (rx[0], rd[0]))
        if rx[0] != rd[0] or (rx[0] == 'cimerror' and rx[1] != rd[1]):
            diverged = True
        if rx[0] != rd[0]:
            ex = rx[-1] if rx[0] != 'ok' else None
            ed = rd[-1] if rd[0] != 'ok' else None
            key = 'outcome.%s-over-http.%s-direct.%s' % (
                rx[0] if ex is None else type(ex).__name__,
                rd[0] if ed is None else type(ed).__name__, opn)
            if ex is not None and not isinstance(ex, CIMError):
                key += ':' + exc_key(ex)
            ctx.violation(key,
                          '%s: over HTTP -> %s, directly -> %s' % (
                              desc, short(repr(rx[1:]), 300),
                              short(repr(rd[1:]), 300)), detail)
        elif rx[0] == 'cimerror':
            if rx[1] != rd[1]:
                ctx.violation('outcome.status-code-differs.%s' % opn,
                              '%s: CIMError %s over HTTP, %s directly'
                              % (desc, rx[1], rd[1]), detail)
        elif rx[0] == 'exc':
            if type(rx[1]) is not type(rd[1]):
                ctx.violation('outcome.exception-type-differs.%s' % opn,
                              '%s: %r over HTTP, %r directly'
                              % (desc, rx[1], rd[1]), detail)
        else:
            vx, vd = rx[1], rd[1]
            # remember enumeration contexts
            if opn.startswith('Open') or opn.startswith('Pull'):
                kind = {'OpenEnumerateInstances': 'PullInstancesWithPath',
                        'OpenAssociatorInstances': 'PullInstancesWithPath',
                        'OpenReferenceInstances': 'PullInstancesWithPath',
                        'OpenEnumerateInstancePaths': 'PullInstancePaths',
                        'OpenAssociatorInstancePaths': 'PullInstancePaths',
                        'OpenReferenceInstancePaths': 'PullInstancePaths',
                        'OpenQueryInstances': 'PullInstances'}.get(opn, opn)
                if not opn.startswith('Pull') or real_ctx:
                    ctxX[kind] = None if vx.eos else vx.context
                    ctxD[kind] = None if vd.eos else vd.context
                if opn.startswith('Open') and seenA:
                    # namespace of the session: what the server saw when it
                    # was opened (checked against the caller's arguments
                    # above)
                    sess_ns[kind] = seenA[0][2] if isinstance(
                        seenA[0][2], str) else None
            try:
                a, b = unordered(result_fp(vx)), unordered(result_fp(vd))
            except Exception as exc:  # pylint: disable=broad-except
                ctx.harness_errors.append({'case': i, 'traceback': repr(exc)})
                continue
            if a != b:
                report_diff(ctx, 'result-differs.%s' % opn,
                            '%s: result over HTTP (first) differs from the '
                            'direct result (second)' % desc, a, b, detail)
        if ctx.evaluations % 701 == 1:
            ctx.sample({'call': short(desc, 300), 'over_http': rx[0],
                        'direct': rd[0],
                        'server_saw': short(repr(seenB[:1]), 300)})
    # ---- (C) repositories ---------------------------------------------------
    ctx.count('repo-dump-compared')
    da, db = dump(A), dump(B)
    if da != db and not diverged:
        report_diff(ctx, 'repository-differs-after-sequence',
                    'repository content after the sequence differs between '
                    'the HTTP path (first) and the direct path (second)',
                    da, db, {'recipe': recipe, 'default_namespace': dn})
    X.close()
