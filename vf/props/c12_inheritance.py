"""C12 - Class inheritance is resolved correctly and class queries mirror the
hierarchy (pywbem_mock).

Reference-model monitor.  The harness keeps the class forest exactly as it
submitted it (vf.classgen: local declarations per class) and computes the
expected resolved view from the property text only; the mock server is driven
through the public FakedWBEMConnection API (SetQualifier, CreateClass,
compile_mof_string, ModifyClass, CreateInstance, DeleteClass) and observed
through GetClass / EnumerateClasses / EnumerateClassNames /
EnumerateInstances / EnumerateInstanceNames.
"""
import copy
import os
import re
import traceback
import warnings

import pywbem
from pywbem import CIMError, CIMInstance
from pywbem_mock import FakedWBEMConnection

from vf import classgen as cg
from vf.classgen import recase
from vf.fingerprint import fp, diff
from vf.reach import Reach
from vf.runner import h64, short, CaseTimeout

META = dict(
    id='C12',
    level='exploration',
    technique='runtime monitoring: reference-model monitor (submitted local '
              'declarations -> expected resolved view) over generated class '
              'forests, sub-structure monitor for the GetClass request flags, '
              'set monitors for the enumerations, before/after fingerprints '
              'for DeleteClass/ModifyClass',
    level_text='Seeded forests (<= 25 classes, depth <= 5, fan-out <= 4) with '
               'overriding and new properties/methods/parameters, 9 flavor '
               'combinations of qualifier declarations plus usage-level '
               'flavors, names re-spelled in other lexical case at every '
               'reference, created through CreateClass in random topological '
               'order (with out-of-order and invalid attempts), through one '
               'MOF compile, or both; leaves changed through ModifyClass; '
               'instances on random classes; DeleteClass of random subtrees. '
               'Every class is read back under all 8 boolean flag '
               'combinations x 2 property lists (+ defaults). Held-on-K-'
               'executions evidence, not a proof.',
    level_note='Trusted: the 60-line view model in vf/classgen.py '
               '(Forest.view), which states only the C12 statement: nearest '
               'declaration wins, class_origin = first introducing class, '
               'qualifiers propagate iff ToSubclass; propagated flag of '
               'overriding elements, qualifier flavors/propagated attributes '
               'in results, Restricted qualifiers on elements a class merely '
               'inherits, and result order are left unconstrained.',
    design_ref='DESIGN.md section 3, C12',
    rule='case = one forest history (build, read back every class, '
         'enumerate, hostile creates, ModifyClass, instances, DeleteClass); '
         'evaluation = one compared operation result; non-trivial = forest '
         'of depth >= 2 with >= 1 override and >= 1 qualifier with a '
         'non-default flavor in use; distinct by hash of the submitted '
         'declarations and the build route',
    assumptions=[
        'overriding methods are generated with the same parameter names and '
        'types as the overridden method (DSP0004 signature rule); class-level '
        'DisableOverride qualifiers are never re-specified with another '
        'value; Restricted+DisableOverride qualifiers are never re-specified '
        'on an overriding element (the server may reject that)',
        'classes the server is allowed to reject (duplicate without Override, '
        'type change) are accepted either way; classes it must reject are '
        'a changed DisableOverride+ToSubclass qualifier, an undeclared '
        'qualifier, a missing superclass, an existing class name',
    ],
    min_eval=500, min_distinct=100,
    required_events=['ResolverMixin._resolve_class',
                     'ResolverMixin._resolve_qualifiers',
                     'ResolverMixin._set_new_object',
                     'BaseProvider.get_class',
                     'MainProvider._get_subclass_names',
                     'MainProvider.ModifyClass', 'MainProvider.DeleteClass',
                     'MainProvider.EnumerateInstances',
                     'forest.mof-route', 'forest.create-route',
                     'view.full.compared', 'view.flags.compared'],
)

REACH = ['pywbem_mock._resolvermixin:ResolverMixin._resolve_class',
         'pywbem_mock._resolvermixin:ResolverMixin._resolve_objects',
         'pywbem_mock._resolvermixin:ResolverMixin._resolve_qualifiers',
         'pywbem_mock._resolvermixin:ResolverMixin._set_new_object',
         'pywbem_mock._resolvermixin:ResolverMixin._init_qualifier',
         'pywbem_mock._resolvermixin:ResolverMixin._validate_qualifiers',
         'pywbem_mock._baseprovider:BaseProvider.get_class',
         'pywbem_mock._baseprovider:BaseProvider.filter_properties',
         'pywbem_mock._mainprovider:MainProvider._get_subclass_names',
         'pywbem_mock._mainprovider:MainProvider._get_subclass_list_for_enums',
         'pywbem_mock._mainprovider:MainProvider.CreateClass',
         'pywbem_mock._mainprovider:MainProvider.ModifyClass',
         'pywbem_mock._mainprovider:MainProvider.DeleteClass',
         'pywbem_mock._mainprovider:MainProvider.EnumerateClasses',
         'pywbem_mock._mainprovider:MainProvider.EnumerateClassNames',
         'pywbem_mock._mainprovider:MainProvider.EnumerateInstances',
         'pywbem_mock._mainprovider:MainProvider.EnumerateInstanceNames']


def plan(tier):
    if tier == 'quick':
        return dict(cases=192, time_s=90, case_cpu_s=120)
    return dict(cases=8000, time_s=480, case_cpu_s=240)


def setup_worker(ctx):
    warnings.simplefilter('ignore')
    ctx.state['reach'] = Reach(REACH).start()


def finish_worker(ctx):
    ctx.state['reach'].flush(ctx)
    ctx.state['reach'].stop()


def sanitize(msg):
    msg = re.sub(r"'[^']*'", "'N'", str(msg))
    msg = re.sub(r'"[^"]*"', "'N'", msg)
    msg = re.sub(r'[\w/]+:[\w/:.]+', 'X', msg)
    msg = re.sub(r'\d+', '#', msg)
    msg = re.sub(r'\s+', ' ', msg)
    return msg[:60].strip()


def errkey(exc):
    inner = getattr(exc, 'cim_error', None)
    if inner is not None:
        exc = inner
    if isinstance(exc, CIMError):
        return '%s:%s' % (exc.status_code_name, sanitize(
            exc.status_description))
    return '%s:%s' % (type(exc).__name__, sanitize(exc))


def mock_exc_key(exc):
    """type + innermost frame inside pywbem_mock (or pywbem) + source line."""
    found = None
    for fs in traceback.extract_tb(exc.__traceback__):
        fn = os.path.abspath(fs.filename)
        if os.sep + 'pywbem_mock' + os.sep in fn:
            found = fs
    if found is None:
        from vf.runner import exc_key
        return exc_key(exc)
    return 'exc=%s@%s.%s:%s' % (
        type(exc).__name__, os.path.basename(found.filename)[:-3],
        found.name, (found.line or '').strip()[:70])


FULL = dict(LocalOnly=False, IncludeQualifiers=True, IncludeClassOrigin=True)


class Abort(Exception):
    """The rest of this history cannot be judged (already reported)."""


class History:
    def __init__(self, ctx, rng, forest, route):
        self.ctx = ctx
        self.rng = rng
        self.f = forest
        self.route = route
        self.ns = rng.choice(['root/cimv2', 'root/test', 'a/b/c'])
        self.conn = FakedWBEMConnection(default_namespace=self.ns)
        self.live = set()
        self.insts = {}           # class idx -> list of key values
        self.log = []

    # -- plumbing ------------------------------------------------------------
    def detail(self, **kw):
        d = {'route': self.route, 'namespace': self.ns,
             'history': self.log[-25:],
             'mof': short(cg.forest_mof(self.f, range(len(self.f.classes))),
                          3500)}
        d.update(kw)
        return d

    def call(self, what, fn, *a, **kw):
        """-> ('ok', result) | ('cim', CIMError) | ('err', pywbem.Error) |
        ('exc', other).  Anything but CIMError/Error is reported."""
        self.log.append('%s %s' % (what, short(
            repr(kw) if kw else repr(a) if all(isinstance(x, str) for x in a)
            else '', 160)))
        try:
            return 'ok', fn(*a, **kw)
        except CaseTimeout:
            raise
        except CIMError as exc:
            self.log[-1] += ' -> ' + exc.status_code_name
            return 'cim', exc
        except pywbem.Error as exc:
            self.log[-1] += ' -> ' + type(exc).__name__
            return 'err', exc
        except Exception as exc:  # pylint: disable=broad-except
            op = what.split(' ')[0].split('[')[0]
            self.viol('%s:%s' % (op, mock_exc_key(exc)),
                      '%s raised %s: %s' % (what, type(exc).__name__,
                                            short(str(exc), 300)),
                      traceback=''.join(traceback.format_exception(
                          type(exc), exc, exc.__traceback__)[-5:])[-2500:])
            return 'exc', exc

    def viol(self, key, what, **kw):
        if self.ctx.viol_counts[key] >= 3:
            self.ctx.violation(key, what, None)
        else:
            self.ctx.violation(key, what, self.detail(**kw))

    def cname(self, i):
        return recase(self.rng, self.f.classes[i].name, 0.5)

    # -- build -----------------------------------------------------------------
    def declare_qualifiers(self):
        # mostly a value for every scope name (as the MOF compiler stores
        # declarations), sometimes only the true ones (as the CIM-XML parser
        # delivers them)
        full = self.rng.random() < 0.9
        self.ctx.cls('qualifier-scopes/' + ('all-keys' if full
                                            else 'true-keys-only'))
        for d in self.f.qdecls:
            st, r = self.call('SetQualifier', self.conn.SetQualifier,
                              d.to_cim(full))
            if st != 'ok':
                self.viol('setup.SetQualifier.' + errkey(r),
                          'SetQualifier(%s) failed: %s' % (d.name, r))
                raise Abort()

    def ref_override_case(self, i):
        """Does class i override a reference property and spell the Override
        value in another lexical case than the property name?"""
        c = self.f.classes[i]
        for p in c.props:
            if p.type == 'reference':
                for q in p.quals:
                    if q.lname == 'override' and q.value != p.name:
                        return True
        return False

    def respecified(self, c, changed_only=False):
        """Does class c specify, on an overriding element, a qualifier whose
        inherited counterpart was itself a flavor-less re-specification of a
        DisableOverride/Restricted qualifier?"""
        if c.parent is None:
            return False
        pv = self.f.view(c.parent)
        hits = []
        for own, inh in ((c.props, pv.props), (c.meths, pv.meths)):
            for d in own:
                pe = inh.get(d.lname)
                if pe is None:
                    continue
                for u in d.quals:
                    pq = pe.quals.get(u.lname)
                    if pq is None:
                        continue
                    if changed_only and not (
                            pq.ts and not pq.ov and
                            fp(u.value) != fp(pq.value)):
                        continue
                    hits.append(pq.respec)
        return bool(hits) and (all(hits) if changed_only else any(hits))

    def rejected_valid(self, i, exc, how):
        c = self.f.classes[i]
        if self.ref_override_case(i) and \
                'Override must not change' in str(exc):
            key = 'reject.valid-class.reference-override-name-case'
        elif self.respecified(c) and ('Restricted in super class' in str(exc)
                                      or 'Not overridable' in str(exc)):
            key = 'reject.valid-class.after-respecification'
        else:
            key = 'reject.valid-class.%s' % errkey(
                getattr(exc, 'cim_error', None) or exc)
        self.viol(key, '%s of class %s, which the model considers valid, was '
                  'rejected: %s' % (how, c.name, short(str(exc), 300)),
                  cls=c.to_mof())

    def create_one(self, i):
        c = self.f.classes[i]
        parent_live = c.parent is None or c.parent in self.live
        deps_live = all(d in self.live for d in c.deps)
        st, r = self.call('CreateClass ' + c.name, self.conn.CreateClass,
                          c.to_cim())
        self.ctx.evaluated()
        if st == 'exc':
            return
        if not parent_live or not deps_live:
            if st == 'ok':
                self.viol('create.accepted.missing-%s' % (
                    'superclass' if not parent_live else 'reference-class'),
                    'CreateClass(%s) succeeded although %s does not exist'
                    % (c.name, c.super_ref if not parent_live else
                       'a referenced class'))
                raise Abort()
            if not parent_live and deps_live and isinstance(r, CIMError) \
                    and r.status_code != pywbem.CIM_ERR_INVALID_SUPERCLASS:
                self.viol('create.missing-superclass.status.' +
                          r.status_code_name,
                          'CreateClass(%s) with a non-existing superclass '
                          'raised %s, documented is CIM_ERR_INVALID_'
                          'SUPERCLASS' % (c.name, r.status_code_name))
            self.ctx.outcome('create-rejected-no-superclass')
            return
        if st == 'ok':
            self.live.add(i)
            self.ctx.outcome('create-accepted')
        else:
            self.ctx.outcome('create-rejected-valid')
            self.rejected_valid(i, r, 'CreateClass')

    def build_create(self, idxs):
        order = cg.topo_order(self.rng, self.f, idxs)
        early = None
        if self.rng.random() < 0.35:
            cand = [i for i in order if self.f.classes[i].parent is not None
                    and self.f.classes[i].parent in idxs]
            if cand:
                early = self.rng.choice(cand)
        if early is not None and \
                self.f.classes[early].parent not in self.live:
            # creation order the server must not accept
            self.ctx.count('create.out-of-order')
            self.create_one(early)
        # now and then the hierarchy is queried while it is being built: the
        # answers must follow the classes that exist at that moment, also
        # for a subtree that was asked about before and has grown since
        probes = set()
        if len(order) > 2 and self.rng.random() < 0.5:
            probes = set(self.rng.sample(range(1, len(order)),
                                         min(len(order) - 1,
                                             self.rng.choice([1, 2, 3]))))
        for n, i in enumerate(order):
            if n in probes and self.live:
                self.ctx.count('queried-while-building')
                self.check_names_all('mid-build')
                live = sorted(self.live)
                self.check_enums([None] + self.rng.sample(
                    live, min(len(live), 3)))
            self.create_one(i)

    def build_mof(self, idxs, with_quals):
        order = cg.topo_order(self.rng, self.f, idxs)
        mof = cg.forest_mof(self.f, order, with_qualifiers=with_quals)
        st, r = self.call('compile_mof_string', self.conn.compile_mof_string,
                          mof)
        self.ctx.evaluated()
        if st == 'ok':
            self.live.update(order)
            self.ctx.outcome('mof-accepted')
            return
        if st == 'exc':
            raise Abort()
        self.ctx.outcome('mof-rejected-valid')
        # which classes made it (the compile is not atomic, C11/F8)?
        st2, names = self.call('EnumerateClassNames',
                               self.conn.EnumerateClassNames,
                               DeepInheritance=True)
        have = set(n.lower() for n in names) if st2 == 'ok' else set()
        culprit = None
        for i in order:
            if self.f.classes[i].lname in have:
                self.live.add(i)
            elif culprit is None:
                culprit = i
        self.rejected_valid(culprit if culprit is not None else order[0], r,
                            'MOF compilation')

    def build(self):
        n = len(self.f.classes)
        allidx = list(range(n))
        if self.route == 'create':
            self.ctx.count('forest.create-route')
            self.declare_qualifiers()
            self.build_create(allidx)
        elif self.route == 'mof':
            self.ctx.count('forest.mof-route')
            self.build_mof(allidx, True)
        else:
            self.ctx.count('forest.create-route')
            self.ctx.count('forest.mof-route')
            self.declare_qualifiers()
            # an ancestor-closed prefix through CreateClass, the rest by MOF
            k = self.rng.randint(1, n)
            first = [i for i in allidx if i < k]
            self.build_create(first)
            rest = []
            for i in allidx:
                c = self.f.classes[i]
                if i >= k and (c.parent is None or c.parent in self.live or
                               c.parent in rest) and \
                        all(d in self.live or d in rest for d in c.deps):
                    rest.append(i)
            if rest:
                self.build_mof(rest, False)

    # -- the full view -----------------------------------------------------------
    def cmp_quals(self, level, where, actual, expected, parent_quals=None):
        act = {}
        for k, q in actual.items():
            act[k.lower()] = q
        missing = [ln for ln, q in expected.items()
                   if q.required and ln not in act]
        extra = [ln for ln in act if ln not in expected]
        inh_req = set(ln for ln, q in expected.items()
                      if not q.own and q.required)
        if missing:
            if set(missing) <= inh_req:
                # nothing inherited shows up at all = one mechanism; only
                # those missing whose nearest specification re-specified a
                # DisableOverride/Restricted qualifier = a second one
                allrespec = all(expected[ln].respec for ln in missing)
                if not set(act) & inh_req and (
                        not allrespec or
                        level in ('class-level', 'parameter')):
                    key = '%s-qualifier.not-propagated' % level
                elif allrespec:
                    key = 'qualifier.%s.lost-after-respecification' % level
                else:
                    key = 'qualifier.%s.inherited-missing' % level
            else:
                key = 'qualifier.%s.own-missing' % level
            self.viol(key, '%s: expected qualifier(s) %s missing; the '
                      'ToSubclass qualifiers of the ancestors must be '
                      'exposed; got %s' % (
                          where, [expected[ln].name for ln in missing],
                          sorted(actual.keys())))
        for ln in extra:
            pq = (parent_quals or {}).get(ln)
            if pq is not None and not pq.ts:
                key = 'qualifier.%s.restricted-propagated' % level
            else:
                key = 'qualifier.%s.extra' % level
            self.viol(key, '%s: qualifier %s is exposed but neither declared '
                      'here nor inherited with ToSubclass flavor'
                      % (where, act[ln].name))
        for ln, q in expected.items():
            if ln in act:
                a = act[ln]
                if a.type != q.type or fp(a.value) != fp(q.value):
                    self.viol('qualifier.%s.value' % level,
                              '%s: qualifier %s has %r (%s), expected the '
                              'nearest declaration %r (%s)' % (
                                  where, a.name, a.value, a.type, q.value,
                                  q.type))

    def cmp_elem(self, kind, i, e, a, pe):
        c = self.f.classes[i]
        d = e.decl
        where = '%s %s.%s' % (kind, c.name, d.name)
        org = self.f.classes[e.origin]
        if (a.class_origin or '').lower() != org.lname:
            nearest = [j for j in [i] + self.f.ancestors(i)
                       if any(x.lname == d.lname for x in
                              (self.f.classes[j].props if kind == 'property'
                               else self.f.classes[j].meths))]
            sub = 'none' if a.class_origin is None else \
                'nearest-declaration' if nearest and \
                a.class_origin.lower() == self.f.classes[nearest[0]].lname \
                else 'other'
            self.viol('class_origin.%s.%s' % (kind, sub),
                      '%s: class_origin %r, expected the introducing class '
                      '%r' % (where, a.class_origin, org.name))
        if not e.here and a.propagated is not True:
            self.viol('propagated.%s.inherited-not-marked' % kind,
                      '%s is not redeclared in %s but propagated=%r'
                      % (where, c.name, a.propagated))
        if e.here and not e.overriding and a.propagated is not False:
            self.viol('propagated.%s.new-marked-propagated' % kind,
                      '%s is introduced by %s but propagated=%r'
                      % (where, c.name, a.propagated))
        self.cmp_quals(kind, where, a.qualifiers, e.quals,
                       pe.quals if pe is not None else None)

    def cmp_full(self, i, full):
        f = self.f
        c = f.classes[i]
        v = f.view(i)
        pv = f.view(c.parent) if c.parent is not None else None
        self.ctx.count('view.full.compared')
        self.ctx.evaluated()
        if full.classname.lower() != c.lname:
            self.viol('view.classname', 'GetClass(%s) returned class %s'
                      % (c.name, full.classname))
        sup = f.classes[c.parent].lname if c.parent is not None else None
        if (full.superclass.lower() if full.superclass else None) != sup:
            self.viol('view.superclass', 'class %s: superclass %r, expected '
                      '%r' % (c.name, full.superclass, sup))
        self.cmp_quals('class-level', 'class %s' % c.name, full.qualifiers,
                       v.cquals, pv.cquals if pv else None)
        # properties
        act = {k.lower(): p for k, p in full.properties.items()}
        for ln in v.props:
            if ln not in act:
                self.viol('view.property.missing.%s' % (
                    'own' if v.props[ln].here else 'inherited'),
                    'class %s does not expose property %s' % (
                        c.name, v.props[ln].decl.name))
        for ln in act:
            if ln not in v.props:
                self.viol('view.property.extra', 'class %s exposes property '
                          '%s which neither it nor an ancestor declares'
                          % (c.name, act[ln].name))
        for ln, e in v.props.items():
            a = act.get(ln)
            if a is None:
                continue
            d = e.decl
            got = (a.type, bool(a.is_array), a.array_size, fp(a.value),
                   (a.reference_class or '').lower(), a.embedded_object)
            exp = (d.type, bool(d.is_array), d.array_size, fp(d.value),
                   (d.reference_class or '').lower(), None)
            if got != exp:
                self.viol('view.property.declaration',
                          'property %s.%s: (type, is_array, array_size, '
                          'default, reference_class, embedded_object) = %r, '
                          'the nearest declaration says %r'
                          % (c.name, d.name, got, exp))
            self.cmp_elem('property', i, e, a,
                          pv.props.get(ln) if pv else None)
        # methods
        act = {k.lower(): m for k, m in full.methods.items()}
        for ln in v.meths:
            if ln not in act:
                self.viol('view.method.missing.%s' % (
                    'own' if v.meths[ln].here else 'inherited'),
                    'class %s does not expose method %s' % (
                        c.name, v.meths[ln].decl.name))
        for ln in act:
            if ln not in v.meths:
                self.viol('view.method.extra', 'class %s exposes method %s '
                          'which neither it nor an ancestor declares'
                          % (c.name, act[ln].name))
        for ln, e in v.meths.items():
            a = act.get(ln)
            if a is None:
                continue
            d = e.decl
            if a.return_type != d.return_type:
                self.viol('view.method.declaration', 'method %s.%s returns '
                          '%s, nearest declaration %s' % (
                              c.name, d.name, a.return_type, d.return_type))
            pe = pv.meths.get(ln) if pv else None
            self.cmp_elem('method', i, e, a, pe)
            ap = {k.lower(): x for k, x in a.parameters.items()}
            if set(ap) != set(e.params):
                self.viol('view.parameter.set', 'method %s.%s has parameters '
                          '%s, nearest declaration %s' % (
                              c.name, d.name, sorted(ap), sorted(e.params)))
            for xl, x in e.params.items():
                ax = ap.get(xl)
                if ax is None:
                    continue
                got = (ax.type, bool(ax.is_array), ax.array_size)
                exp = (x.decl.type, bool(x.decl.is_array), x.decl.array_size)
                if got != exp:
                    self.viol('view.parameter.declaration',
                              'parameter %s of %s.%s: %r, declared %r' % (
                                  x.decl.name, c.name, d.name, got, exp))
                ppx = pe.params.get(xl) if pe is not None else None
                self.cmp_quals('parameter', 'parameter %s of %s.%s' % (
                    x.decl.name, c.name, d.name), ax.qualifiers, x.quals,
                    ppx.quals if ppx else None)

    # -- request flags -----------------------------------------------------------
    @staticmethod
    def strip(el, iq, ico, is_method=False):
        el = copy.deepcopy(el)
        if iq is False:
            el.qualifiers = {}
            if is_method:
                for x in el.parameters.values():
                    x.qualifiers = {}
        if not ico:
            el.class_origin = None
        return el

    def cmp_flags(self, i, full, sub, lo, iq, ico, pl, what):
        c = self.f.classes[i]
        v = self.f.view(i)
        self.ctx.count('view.flags.compared')
        self.ctx.evaluated()
        flags = 'LocalOnly=%r, IncludeQualifiers=%r, IncludeClassOrigin=%r, ' \
            'PropertyList=%r' % (lo, iq, ico, pl)
        where = '%s(%s, %s)' % (what, c.name, flags)
        if sub.classname != full.classname or \
                sub.superclass != full.superclass:
            self.viol('flags.class-header-changed', '%s: classname/superclass'
                      ' %r/%r differ from the full view %r/%r' % (
                          where, sub.classname, sub.superclass,
                          full.classname, full.superclass))
        expq = fp({} if iq is False else dict(full.qualifiers))
        if fp(dict(sub.qualifiers)) != expq:
            self.viol('flags.class-qualifiers', '%s: class qualifiers %s, '
                      'full view has %s' % (where, list(sub.qualifiers),
                                            list(full.qualifiers)))
        local = lo is not False      # None = server default True
        allowed = None
        if pl is not None:
            allowed = set(x.lower() for x in ([pl] if isinstance(pl, str)
                                              else pl))
        for kind, fulld, subd, vd in (
                ('property', full.properties, sub.properties, v.props),
                ('method', full.methods, sub.methods, v.meths)):
            fl = {k.lower(): e for k, e in fulld.items()}
            sl = {k.lower(): e for k, e in subd.items()}
            for ln, e in sl.items():
                if ln not in fl:
                    self.viol('flags.%s.added' % kind, '%s returns %s %s '
                              'which the full view does not have' % (
                                  where, kind, e.name))
                    continue
                exp = self.strip(fl[ln], iq, ico, kind == 'method')
                if fp(e) != fp(exp):
                    ds = diff(fp(exp), fp(e), limit=2)
                    self.viol('flags.%s.changed' % kind, '%s: %s %s differs '
                              'from the full view beyond the requested '
                              'removal: %s' % (where, kind, e.name, ds))
            for ln in fl:
                in_pl = kind == 'method' or allowed is None or ln in allowed
                ve = vd.get(ln)
                if ln in sl:
                    if not in_pl:
                        self.viol('flags.propertylist.not-filtered',
                                  '%s returns property %s which is not in the'
                                  ' PropertyList' % (where, fl[ln].name))
                    elif local and ve is not None and not ve.here:
                        self.viol('flags.localonly.kept-inherited.%s' % kind,
                                  '%s returns inherited %s %s' % (
                                      where, kind, fl[ln].name))
                else:
                    if not in_pl:
                        continue
                    if not local:
                        self.viol('flags.%s.dropped' % kind, '%s drops %s %s'
                                  ' although LocalOnly=False%s' % (
                                      where, kind, fl[ln].name,
                                      ' and it is in the PropertyList'
                                      if allowed is not None else ''))
                    elif ve is not None and ve.here and not ve.overriding:
                        self.viol('flags.localonly.dropped-new.%s' % kind,
                                  '%s drops %s %s which this class '
                                  'introduces' % (where, kind, fl[ln].name))

    def gen_pl(self, full):
        names = list(full.properties.keys())
        r = self.rng.random()
        if r < 0.15:
            return []
        if r < 0.25 and names:
            return recase(self.rng, self.rng.choice(names))
        k = self.rng.randint(0, len(names))
        pl = [recase(self.rng, n) for n in self.rng.sample(names, k)]
        if self.rng.random() < 0.4:
            pl.append('NoSuchProp')
        if pl and self.rng.random() < 0.3:
            pl.append(self.rng.choice(pl))
        self.rng.shuffle(pl)
        return pl

    def get_full(self, i):
        st, full = self.call('GetClass', self.conn.GetClass, self.cname(i),
                             **FULL)
        if st != 'ok':
            if st != 'exc':
                self.viol('getclass.live-class.' + errkey(full),
                          'GetClass(%s) of an existing class failed: %s' % (
                              self.f.classes[i].name, full))
            return None
        return full

    def check_class(self, i, flagsets='all'):
        full = self.get_full(i)
        if full is None:
            return None
        self.cmp_full(i, full)
        combos = [(lo, iq, ico) for lo in (True, False) for iq in (True, False)
                  for ico in (True, False)]
        if flagsets != 'all':
            combos = self.rng.sample(combos, 2)
        extra = [(self.rng.choice([None, True, False]),
                  self.rng.choice([None, True, False]),
                  self.rng.choice([None, True, False])) for _ in range(2)]
        for lo, iq, ico in combos + extra:
            for pl in (None, self.gen_pl(full)):
                kw = {}
                if lo is not None or self.rng.random() < 0.5:
                    kw['LocalOnly'] = lo
                if iq is not None or self.rng.random() < 0.5:
                    kw['IncludeQualifiers'] = iq
                if ico is not None or self.rng.random() < 0.5:
                    kw['IncludeClassOrigin'] = ico
                if pl is not None:
                    kw['PropertyList'] = pl
                st, sub = self.call('GetClass', self.conn.GetClass,
                                    self.cname(i), **kw)
                if st != 'ok':
                    if st != 'exc':
                        self.viol('getclass.flags.' + errkey(sub),
                                  'GetClass(%s, %r) failed: %s' % (
                                      self.f.classes[i].name, kw, sub))
                    continue
                self.cmp_flags(i, full, sub, lo, iq, ico, pl, 'GetClass')
        return full

    # -- enumerations --------------------------------------------------------------
    def expected_names(self, i, deep):
        if i is None:
            idx = self.f.roots(self.live)
            if deep:
                idx = [j for r in idx for j in self.f.subtree(r, self.live)]
        elif deep:
            idx = self.f.subtree(i, self.live)[1:]
        else:
            idx = self.f.children(i, self.live)
        return sorted(self.f.classes[j].lname for j in idx)

    def check_enums(self, targets):
        for i in targets:
            for deep in (True, False, None):
                kw = {}
                if i is not None:
                    kw['ClassName'] = self.cname(i)
                if deep is not None:
                    kw['DeepInheritance'] = deep
                exp = self.expected_names(i, bool(deep))
                tgt = self.f.classes[i].name if i is not None else None
                st, names = self.call('EnumerateClassNames',
                                      self.conn.EnumerateClassNames, **kw)
                self.ctx.evaluated()
                if st == 'ok':
                    got = sorted(n.lower() for n in names)
                    if got != exp:
                        self.enum_viol('EnumerateClassNames', tgt, deep, got,
                                       exp)
                elif st != 'exc':
                    self.viol('enumclassnames.' + errkey(names),
                              'EnumerateClassNames(%r) failed: %s' % (kw,
                                                                      names))
                lo, iq, ico = [self.rng.choice([None, True, False])
                               for _ in range(3)]
                for k, val in (('LocalOnly', lo), ('IncludeQualifiers', iq),
                               ('IncludeClassOrigin', ico)):
                    if val is not None:
                        kw[k] = val
                st, classes = self.call('EnumerateClasses',
                                        self.conn.EnumerateClasses, **kw)
                self.ctx.evaluated()
                if st != 'ok':
                    if st != 'exc':
                        self.viol('enumclasses.' + errkey(classes),
                                  'EnumerateClasses(%r) failed: %s' % (
                                      kw, classes))
                    continue
                got = sorted(k.classname.lower() for k in classes)
                if got != exp:
                    self.enum_viol('EnumerateClasses', tgt, deep, got, exp)
                # each returned class = GetClass with the same flags
                for k in self.rng.sample(classes, min(3, len(classes))):
                    gkw = {x: y for x, y in kw.items()
                           if x not in ('ClassName', 'DeepInheritance')}
                    st, g = self.call('GetClass', self.conn.GetClass,
                                      k.classname, **gkw)
                    if st != 'ok':
                        continue
                    a, b = copy.deepcopy(k), copy.deepcopy(g)
                    a.path = b.path = None
                    if fp(a) != fp(b) and kw.get('IncludeClassOrigin'):
                        for el in list(b.properties.values()) + \
                                list(b.methods.values()):
                            el.class_origin = None
                        if fp(a) == fp(b):
                            self.viol(
                                'enumclasses.includeclassorigin-ignored',
                                'EnumerateClasses(%r) returns %s without '
                                'class_origin on its elements; GetClass with '
                                'the same flags has it' % (kw, k.classname))
                            continue
                    if fp(a) != fp(b):
                        self.viol('enumclasses.differs-from-getclass',
                                  'EnumerateClasses(%r) returns %s different '
                                  'from GetClass with the same flags: %s' % (
                                      kw, k.classname,
                                      diff(fp(b), fp(a), limit=2)))

    def enum_viol(self, op, tgt, deep, got, exp):
        missing = [n for n in exp if n not in got]
        extra = [n for n in got if n not in exp]
        dup = len(got) != len(set(got))
        sub = 'duplicates' if dup and not missing and not set(extra) - set(
            exp) else 'missing' if missing and not extra else \
            'extra' if extra and not missing else 'different'
        self.viol('%s.%s.%s' % (op.lower(), 'deep' if deep else 'children',
                                sub),
                  '%s(ClassName=%r, DeepInheritance=%r) returned %s, the '
                  'hierarchy says %s' % (op, tgt, deep, got, exp))

    def check_names_all(self, when):
        st, names = self.call('EnumerateClassNames',
                              self.conn.EnumerateClassNames,
                              DeepInheritance=True)
        self.ctx.evaluated()
        if st != 'ok':
            return
        got = sorted(n.lower() for n in names)
        exp = sorted(self.f.classes[j].lname for j in self.live)
        if got != exp:
            self.viol('classes-present.%s' % when,
                      'after %s the namespace holds classes %s, expected %s'
                      % (when, got, exp))
            raise Abort()

    # -- hostile creations -----------------------------------------------------------
    def hostile(self):
        for _ in range(self.rng.choice([1, 1, 2])):
            h = cg.gen_hostile_class(self.rng, self.f, self.live)
            if h is None:
                continue
            kind, expect = h.hostile
            self.ctx.cls('hostile/' + kind)
            st, r = self.call('CreateClass[%s] %s' % (kind, h.name),
                              self.conn.CreateClass, h.to_cim())
            self.ctx.evaluated()
            if st == 'exc':
                raise Abort()
            if st == 'ok':
                self.ctx.outcome('hostile-accepted-' + kind)
                if expect == 'reject':
                    sub = '.after-respecification' if kind == 'do-change' \
                        and self.respecified(h, changed_only=True) else ''
                    self.viol('create.accepted-invalid.' + kind + sub,
                              'CreateClass accepted class %s which %s' % (
                                  h.name, {
                                      'do-change': 'changes the value of a '
                                      'DisableOverride qualifier inherited '
                                      'with ToSubclass',
                                      'undeclared-qual': 'uses a qualifier '
                                      'without declaration',
                                      'dup-class': 'already exists',
                                      'missing-super': 'names a superclass '
                                      'that does not exist'}[kind]),
                              cls=h.to_mof())
                    raise Abort()
                if expect == 'either-then-delete':
                    st2, r2 = self.call('DeleteClass[%s] %s' % (kind, h.name),
                                        self.conn.DeleteClass, h.name)
                    if st2 != 'ok':
                        if st2 in ('cim', 'err'):
                            self.viol('delete.after-%s.%s' % (
                                kind, getattr(r2, 'status_code_name',
                                              type(r2).__name__)),
                                'DeleteClass of the accepted class %s '
                                'failed: %s' % (h.name, r2), cls=h.to_mof())
                        raise Abort()
                    continue
                self.f.classes.append(h)
                self.f.invalidate()
                self.live.add(len(self.f.classes) - 1)
            else:
                self.ctx.outcome('hostile-rejected-' + kind)
                want = {'dup-class': pywbem.CIM_ERR_ALREADY_EXISTS,
                        'missing-super': pywbem.CIM_ERR_INVALID_SUPERCLASS}
                if kind in want and isinstance(r, CIMError) and \
                        r.status_code != want[kind]:
                    self.viol('create.%s.status.%s' % (kind,
                                                       r.status_code_name),
                              'CreateClass of a class that %s raised %s' % (
                                  kind, r.status_code_name))
        self.check_names_all('a rejected CreateClass')

    # -- ModifyClass -----------------------------------------------------------------
    def snapshot(self, idxs):
        snap = {}
        for j in idxs:
            st, k = self.call('GetClass', self.conn.GetClass,
                              self.f.classes[j].name, **FULL)
            if st == 'ok':
                k.path = None
                snap[j] = fp(k)
        return snap

    def cmp_snapshot(self, before, what, skip=()):
        after = self.snapshot([j for j in before if j not in skip and
                               j in self.live])
        for j, x in after.items():
            self.ctx.evaluated()
            if before[j] != x:
                self.viol('unrelated-class-changed.' + what,
                          'class %s changed by %s: %s' % (
                              self.f.classes[j].name, what,
                              diff(before[j], x, limit=2)))

    def modify(self):
        leaves = [i for i in self.live if not self.f.children(i, self.live)
                  and not self.f.classes[i].is_assoc and
                  not self.insts.get(i) and
                  not any(i in self.f.classes[j].deps for j in self.live)]
        inner = [i for i in self.live if self.f.children(i, self.live) and
                 not self.f.classes[i].is_assoc]
        before = self.snapshot(self.live)
        if inner and self.rng.random() < 0.3:
            i = self.rng.choice(inner)
            o = self.f.classes[i]
            n = cg.ClsDecl(recase(self.rng, o.name), o.parent, o.super_ref)
            cg.gen_class_body(self.rng, self.f, n, o.parent, self.f.names)
            st, r = self.call('ModifyClass[has-children] ' + n.name,
                              self.conn.ModifyClass, n.to_cim())
            self.ctx.evaluated()
            if st == 'ok':
                self.viol('modify.accepted.class-with-children',
                          'ModifyClass(%s) succeeded although the class has '
                          'subclasses (documented: rejected); the subclasses '
                          'are not re-resolved' % o.name)
                raise Abort()
            if st == 'exc':
                raise Abort()
            self.cmp_snapshot(before, 'rejected-ModifyClass')
        for _ in range(self.rng.choice([1, 1, 2])):
            if not leaves:
                return
            i = self.rng.choice(leaves)
            o = self.f.classes[i]
            n = cg.ClsDecl(recase(self.rng, o.name, 0.4), o.parent,
                           recase(self.rng, o.super_ref, 0.5)
                           if o.super_ref else None)
            n.depth = o.depth
            cg.gen_class_body(self.rng, self.f, n, o.parent, self.f.names)
            st, r = self.call('ModifyClass ' + n.name, self.conn.ModifyClass,
                              n.to_cim())
            self.ctx.evaluated()
            self.ctx.count('modifyclass.leaf')
            if st == 'exc':
                raise Abort()
            if st != 'ok':
                self.f.classes.append(n)     # only for the detail text
                self.rejected_valid(len(self.f.classes) - 1, r, 'ModifyClass')
                self.f.classes.pop()
                continue
            self.f.classes[i] = n
            self.f.invalidate()
            self.check_class(i, 'some')
            self.cmp_snapshot(before, 'ModifyClass', skip=(i,))
            before = self.snapshot(self.live)

    # -- instances ---------------------------------------------------------------------
    def key_name(self, i):
        for ln, e in self.f.view(i).props.items():
            if 'key' in e.quals:
                return e.decl.name
        return None

    def create_instances(self):
        plain = [i for i in sorted(self.live)
                 if not self.f.classes[i].is_assoc]
        if not plain:
            return
        n = self.rng.choice([1, 2, 3, 5, 8])
        for k in range(n):
            i = self.rng.choice(plain)
            kn = self.key_name(i)
            if kn is None:
                continue
            val = 'i%d' % k
            inst = CIMInstance(self.cname(i), {recase(self.rng, kn, 0.3): val})
            st, path = self.call('CreateInstance', self.conn.CreateInstance,
                                 inst)
            self.ctx.evaluated()
            if st == 'ok':
                self.insts.setdefault(i, []).append(val)
                if path.classname.lower() != self.f.classes[i].lname:
                    self.viol('createinstance.path-classname',
                              'CreateInstance of class %s returned path %s'
                              % (self.f.classes[i].name, path))
            elif st != 'exc':
                self.viol('createinstance.rejected.' + errkey(path),
                          'CreateInstance(%s) on a live class failed: %s'
                          % (inst.classname, path))

    def expected_insts(self, i):
        out = []
        for j in self.f.subtree(i, self.live):
            out.extend((self.f.classes[j].lname, v)
                       for v in self.insts.get(j, []))
        return sorted(out)

    @staticmethod
    def path_id(p):
        vals = list(p.keybindings.values())
        return (p.classname.lower(), vals[0] if len(vals) == 1 else
                repr(sorted(p.keybindings.items())))

    def check_instances(self, classes=None, when='enum'):
        for i in sorted(self.live) if classes is None else classes:
            if self.f.classes[i].is_assoc:
                continue
            exp = self.expected_insts(i)
            cn = self.cname(i)
            st, names = self.call('EnumerateInstanceNames',
                                  self.conn.EnumerateInstanceNames, cn)
            self.ctx.evaluated()
            if st == 'ok':
                got = sorted(self.path_id(p) for p in names)
                if got != exp:
                    self.inst_viol('enumerateinstancenames', when, cn, got,
                                   exp)
            elif st != 'exc':
                self.viol('enumerateinstancenames.' + errkey(names),
                          'EnumerateInstanceNames(%s) failed: %s' % (cn,
                                                                     names))
            kw = {}
            if self.rng.random() < 0.5:
                kw['DeepInheritance'] = self.rng.choice([True, False])
            if self.rng.random() < 0.3:
                kw['LocalOnly'] = self.rng.choice([True, False])
            st, insts = self.call('EnumerateInstances',
                                  self.conn.EnumerateInstances, cn, **kw)
            self.ctx.evaluated()
            if st == 'ok':
                got = sorted(self.path_id(x.path) for x in insts)
                if got != exp:
                    self.inst_viol('enumerateinstances', when, cn, got, exp)
                for x in insts:
                    if x.classname.lower() != x.path.classname.lower():
                        self.viol('enumerateinstances.classname-vs-path',
                                  'instance classname %s, path %s' % (
                                      x.classname, x.path))
            elif st != 'exc':
                self.viol('enumerateinstances.' + errkey(insts),
                          'EnumerateInstances(%s) failed: %s' % (cn, insts))

    def inst_viol(self, op, when, cn, got, exp):
        missing = [n for n in exp if n not in got]
        extra = [n for n in got if n not in exp]
        sub = 'missing' if missing and not extra else \
            'extra' if extra and not missing else 'different'
        self.viol('%s.%s.%s' % (op, when, sub),
                  '%s(%s) returned %s, instances of the subtree are %s'
                  % (op, cn, got, exp))

    # -- DeleteClass ---------------------------------------------------------------------
    def delete(self):
        if not self.live:
            return
        cand = sorted(self.live)
        inner = [i for i in cand if self.f.children(i, self.live)]
        i = self.rng.choice(inner if inner and self.rng.random() < 0.7
                            else cand)
        before = self.snapshot(self.live)
        gone = self.f.subtree(i, self.live)
        st, r = self.call('DeleteClass', self.conn.DeleteClass,
                          self.cname(i))
        self.ctx.evaluated()
        self.ctx.count('deleteclass')
        if st == 'exc':
            raise Abort()
        if st != 'ok':
            self.viol('deleteclass.rejected.' + errkey(r),
                      'DeleteClass(%s) of a live class failed: %s' % (
                          self.f.classes[i].name, r))
            return
        for j in gone:
            self.live.discard(j)
            self.insts.pop(j, None)
        st, names = self.call('EnumerateClassNames',
                              self.conn.EnumerateClassNames,
                              DeepInheritance=True)
        self.ctx.evaluated()
        if st == 'ok':
            got = sorted(n.lower() for n in names)
            exp = sorted(self.f.classes[j].lname for j in self.live)
            left = [n for n in got if n not in exp]
            lost = [n for n in exp if n not in got]
            if left:
                self.viol('deleteclass.subtree-class-left',
                          'after DeleteClass(%s) the classes %s of its '
                          'subtree still exist' % (self.f.classes[i].name,
                                                   left))
            if lost:
                self.viol('deleteclass.removed-outside-subtree',
                          'DeleteClass(%s) also removed %s' % (
                              self.f.classes[i].name, lost))
            if left or lost:
                raise Abort()
        for j in gone[:4]:
            st, r = self.call('GetClass', self.conn.GetClass,
                              self.f.classes[j].name)
            if st == 'ok':
                self.viol('deleteclass.deleted-class-readable',
                          'GetClass(%s) works after its deletion' %
                          self.f.classes[j].name)
        self.cmp_snapshot(before, 'DeleteClass')
        self.check_instances(when='after-deleteclass')
        self.check_enums([None] + self.rng.sample(
            sorted(self.live), min(2, len(self.live))))
        # the deleted names can be used again and nothing of the old classes
        # lingers (instances left behind would show up again here)
        if self.rng.random() < 0.5:
            o = self.f.classes[i]
            if (o.parent is None or o.parent in self.live) and \
                    all(d in self.live for d in o.deps):
                again = [j for j in gone
                         if all(d in self.live or d in gone
                                for d in self.f.classes[j].deps)]
                if self.rng.random() < 0.3:
                    again = [i]
                for j in cg.topo_order(self.rng, self.f, again):
                    self.create_one(j)
                self.ctx.count('deleteclass.recreated')
                if i in self.live:
                    self.check_class(i, 'some')
                    self.check_instances([j for j in again if j in self.live],
                                         'after-recreate')

    # -- the history ---------------------------------------------------------------------
    def run(self):
        self.build()
        self.check_names_all('build')
        for i in sorted(self.live):
            self.check_class(i)
        targets = [None] + sorted(self.live)
        if len(targets) > 9:
            targets = [None] + self.rng.sample(sorted(self.live), 8)
        self.check_enums(targets)
        if self.rng.random() < 0.5:
            self.hostile()
        if self.rng.random() < 0.6:
            self.modify()
        self.create_instances()
        self.check_instances()
        for _ in range(self.rng.choice([1, 1, 2])):
            self.delete()


def nontrivial(f):
    if f.depth() < 2:
        return False
    has_override = any(q.lname == 'override' for c in f.classes
                       for el in c.props + c.meths for q in el.quals)
    flavored = any((q.eff_ts(), q.eff_ov()) != (True, True)
                   for c in f.classes
                   for qs in [c.quals] + [el.quals for el in c.props +
                                          c.meths] +
                   [x.quals for m in c.meths for x in m.params]
                   for q in qs if q.lname not in ('key', 'override',
                                                  'association'))
    return has_override and flavored


def run_case(ctx, i, rng):
    forest = cg.gen_forest(rng)
    route = rng.choice(['create', 'create', 'mof', 'mixed'])
    ctx.cls('route/' + route)
    ctx.cls('classes/%02d-' % (len(forest.classes) // 5 * 5))
    ctx.cls('depth/%d' % forest.depth())
    if nontrivial(forest):
        ctx.nontrivial(h64((forest.shape(), route)))
    h = History(ctx, rng, forest, route)
    if i % 37 == 0:
        ctx.sample({'route': route, 'classes': len(forest.classes),
                    'depth': forest.depth(),
                    'mof': short(cg.forest_mof(
                        forest, range(len(forest.classes)),
                        with_qualifiers=False), 900)})
    try:
        h.run()
        ctx.outcome('history-complete')
    except Abort:
        ctx.outcome('history-aborted')
