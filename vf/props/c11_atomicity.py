"""C11 - A failed mock-repository operation changes nothing.

Fault enumeration.  A case builds one repository state (vf.repogen schema in
2-3 namespaces, instances, associations incl. cross-namespace ones) and then
issues, for every batch API x rejection reason x position k < n, a batch whose
k-th element is invalid for exactly that reason, and for every single-object
API every rejection reason.  Oracle: if the call raised (anything), the dump
of the whole repository - namespaces, classes, instances (values and store
keys), qualifier declarations, read through the public accessors of
conn.cimrepository - is identical before and after.  Calls that do not raise
are not judged.  In addition, a WBEM operation (Create/Modify/DeleteClass,
Set/DeleteQualifier, Create/Modify/DeleteInstance) that is called with
arguments of the documented types and fails must fail with a pywbem.Error.

Besides the rejection reasons, the single-object faults contain calls that
are valid but unusual - association instances whose references or target
namespace spell a namespace in another lexical case, a ModifyInstance that
introduces a reference the stored association does not have yet - because
"if it raises, nothing changed" must hold for them as well.
"""
import os
import shutil
from copy import deepcopy
import tempfile
import warnings

import pywbem
from pywbem import (CIMClass, CIMInstance, CIMInstanceName, CIMProperty,
                    CIMQualifier, CIMQualifierDeclaration, CIMError)

from vf import cimgen, repogen
from vf.fingerprint import fp
from vf.reach import Reach
from vf.runner import h64, short, CaseTimeout

META = dict(
    id='C11',
    level='fault_enumeration',
    technique='runtime monitoring: fault enumeration (batch API x rejection '
              'reason x position k; single-object API x rejection reason) '
              'with a before/after dump oracle over the public repository '
              'accessors and an exception-class oracle for WBEM operations; '
              'sys.monitoring reach counters',
    level_text='For each sampled repository state every (API, rejection '
               'reason) pair of the tables in this module is executed; for '
               'the four batch APIs the invalid element is placed at every '
               'position k of a batch of length n (n cycles 1..4 quick, 1..8 '
               'thorough, over the cases). Positions x reasons are enumerated, '
               'starting states are sampled. A raising call must leave the '
               'strict fingerprint of the whole repository unchanged; a WBEM '
               'operation with arguments of the documented types must not '
               'raise anything but pywbem.Error. Single-object reasons include '
               'association instances with missing / host-qualified / '
               'namespace-less / NULL / re-spelled-namespace references, '
               'cross-namespace associations present in one namespace only, '
               'references newly introduced by ModifyInstance, embedded '
               'instances of unknown / unrelated classes, and CIM_Namespace '
               'instances (namespace provider) that exist, lack or have NULL '
               'keys, have a wrong CreationClassName or name a second '
               'Interop namespace.',
    level_note='Trusted: vf.fingerprint (strict structural fingerprint) and '
               'the dump built from conn.cimrepository.namespaces / '
               'get_*_store(ns).iter_values()/iter_names(). State outside the '
               'repository (MOF compiler caches, default_namespace, provider '
               'registry) is not part of the statement and not compared. '
               'Performance shim repogen.cache_ply_tables(): the LALR tables '
               'of the MOF compiler are generated once per worker by the '
               'tree\'s own _yacc() instead of on every MOFCompiler().',
    design_ref='DESIGN.md section 3, C11',
    rule='case = one state + one batch length n; evaluation = one faulted '
         'call; non-trivial if the call raised on a state with >= 2 '
         'namespaces or >= 5 objects and (k >= 1 or the API is single-object); '
         'distinct by (api, reason, k, n, state hash)',
    assumptions=[
        'the state drifts inside a case (non-raising calls and the known '
        'partial-batch defect add objects with fresh names); every faulted '
        'call is judged against the dump taken immediately before it',
        'a reason that does not make the call raise in a given state is '
        'counted as not-raised and not judged',
    ],
    min_eval=1500, min_distinct=300,
    required_events=[
        'raised:compile_mof_string', 'raised:compile_mof_file',
        'raised:compile_schema_classes', 'raised:add_cimobjects',
        'raised:CreateClass', 'raised:ModifyClass', 'raised:DeleteClass',
        'raised:SetQualifier', 'raised:DeleteQualifier',
        'raised:CreateInstance', 'raised:ModifyInstance',
        'raised:DeleteInstance', 'raised:add_namespace',
        'raised:remove_namespace', 'raised:multins-association',
        'raised:namespace-provider',
        'raised:CreateInstance/cim_namespace-missing-key',
        'raised:CreateInstance/cim_namespace-creationclassname-mismatch',
        'raised:CreateInstance/embedded-instance-of-unknown-class',
        'raised:ModifyInstance/assoc-new-reference-endpoint-missing',
        'MOFCompiler.compile_string', 'MainProvider.CreateClass',
        'InstanceWriteProvider.create_multi_namespace_instance'],
)

REACH = ['pywbem._mof_compiler:MOFCompiler.compile_string',
         'pywbem._mof_compiler:MOFCompiler.compile_file',
         'pywbem_mock._wbemconnection_mock:FakedWBEMConnection.add_cimobjects',
         'pywbem_mock._mainprovider:MainProvider.CreateClass',
         'pywbem_mock._mainprovider:MainProvider.ModifyClass',
         'pywbem_mock._mainprovider:MainProvider.DeleteClass',
         'pywbem_mock._mainprovider:MainProvider.SetQualifier',
         'pywbem_mock._mainprovider:MainProvider.DeleteQualifier',
         'pywbem_mock._instancewriteprovider:InstanceWriteProvider.'
         'create_multi_namespace_instance',
         'pywbem_mock._instancewriteprovider:InstanceWriteProvider.'
         'modify_multi_namespace_instance',
         'pywbem_mock._inmemoryrepository:InMemoryObjectStore.create',
         'pywbem_mock._inmemoryrepository:InMemoryObjectStore.delete']


def plan(tier):
    if tier == 'quick':
        return dict(cases=48, time_s=75, case_cpu_s=300)
    return dict(cases=400, time_s=450, case_cpu_s=300)


def setup_worker(ctx):
    warnings.simplefilter('ignore')
    ctx.extra['ply_tables_cached'] = bool(repogen.cache_ply_tables())
    ctx.state['reach'] = Reach(REACH).start()


def finish_worker(ctx):
    ctx.state['reach'].flush(ctx)
    ctx.state['reach'].stop()


# ================================================================= dump =====

def dump(conn):
    """{namespace: {store: {name: fingerprint}}} of the whole repository."""
    rep = conn.cimrepository
    out = {}
    for ns in rep.namespaces:
        cs = {c.classname.lower(): fp(c)
              for c in rep.get_class_store(ns).iter_values(copy=False)}
        ins = {}
        for i in rep.get_instance_store(ns).iter_values(copy=False):
            ins[str(i.path)] = fp(i)
        names = {str(n): fp(n)
                 for n in rep.get_instance_store(ns).iter_names()}
        qs = {q.name.lower(): fp(q, strict_scopes=True)
              for q in rep.get_qualifier_store(ns).iter_values(copy=False)}
        out[ns] = {'classes': cs, 'instances': ins, 'instance-keys': names,
                   'qualifiers': qs}
    return out


def dump_diff(a, b):
    """[(change, namespace, store, name)]"""
    out = []
    for ns in a:
        if ns not in b:
            out.append(('removed', ns, 'namespace', ns))
    for ns in b:
        if ns not in a:
            out.append(('added', ns, 'namespace', ns))
            continue
        for store in b[ns]:
            x, y = a[ns][store], b[ns][store]
            for n in x:
                if n not in y:
                    out.append(('removed', ns, store, n))
                elif x[n] != y[n]:
                    out.append(('changed', ns, store, n))
            for n in y:
                if n not in x:
                    out.append(('added', ns, store, n))
    return out


def dump_size(d):
    return sum(len(s) for ns in d.values() for k, s in ns.items()
               if k != 'instance-keys')


# ================================================================ state =====

MOF_KEY_TYPES = set(cimgen.INT_TYPES) | {'string', 'boolean', 'datetime'}


def mof_value(v):
    if v is None:
        return 'NULL'
    if isinstance(v, bool):
        return 'true' if v else 'false'
    if isinstance(v, int):
        return str(int(v))
    if isinstance(v, pywbem.CIMDateTime):
        return '"%s"' % v
    if isinstance(v, CIMInstanceName):
        return repogen.mof_string(str(v))
    if isinstance(v, list):
        return '{' + ', '.join(mof_value(x) for x in v) + '}'
    return repogen.mof_string(str(v))


class Elem:
    """One element of a batch: MOF text and/or CIM object, plus the markers
    of the repository objects it creates when it is accepted."""

    def __init__(self, mof=None, obj=None, marks=(), kind='class',
                 name=None):
        self.mof = mof
        self.obj = obj
        self.marks = list(marks)     # (store, lower name or marker)
        self.kind = kind
        self.name = name             # declared name of a class element


class State:
    def __init__(self, ctx, rng, schema):
        self.ctx = ctx
        self.rng = rng
        self.s = schema
        self.conn = schema.build()
        self.n = 0
        self.dirs = 0
        self.touched = True    # repository changed outside Monitor.faulted
        self.populate()

    # ---- names -------------------------------------------------------------
    def fresh(self, prefix='C11_'):
        self.n += 1
        return '%s%d%s' % (prefix, self.n, self.rng.choice(['', 'x', 'Q', '_z']))

    def newdir(self):
        self.dirs += 1
        return self.dirs

    def nskey(self, ns):
        return ns.strip('/').lower()

    def pick_ns(self):
        return self.rng.choice(self.s.namespaces)

    # ---- live lookups --------------------------------------------------------
    def live_classes(self, ns):
        return {c.classname.lower(): c for c in
                self.conn.cimrepository.get_class_store(ns).iter_values(
                    copy=False)}

    def live_instances(self, ns):
        return list(self.conn.cimrepository.get_instance_store(ns)
                    .iter_values(copy=False))

    def schema_classes(self, ns, assoc=None):
        """ClassDefs of the schema that are (still) present in ns."""
        live = self.live_classes(ns)
        out = []
        for cn in self.s.ns_classes[self.nskey(ns)]:
            c = self.s.classes[cn]
            if cn in live and (assoc is None or c.assoc == assoc):
                out.append(c)
        return out

    def instances_of(self, ns, cdef, subclasses=False):
        want = self.s.subtree(self.nskey(ns), cdef.name) if subclasses \
            else {cdef.name.lower()}
        return [i for i in self.live_instances(ns)
                if i.classname.lower() in want]

    def subclasses_of(self, ns, cdef):
        return [c for c in self.live_classes(ns).values()
                if c.superclass and
                c.superclass.lower() == cdef.name.lower()]

    def pick(self, seq):
        seq = list(seq)
        return self.rng.choice(seq) if seq else None

    # ---- population ------------------------------------------------------------
    def key_props(self, cdef, unique=True):
        props = []
        for k in self.s.keys(cdef.name):
            if k.type == 'string' and unique:
                v = self.fresh('c11v')
            else:
                v = repogen.key_value(self.rng, k.type)
            props.append(CIMProperty(k.name, v, type=k.type))
        return props

    def new_instance(self, cdef, full=True):
        props = self.key_props(cdef)
        for d in self.s.exposed(cdef.name).values():
            if not d.key and d.type != 'reference' and not d.embedded and \
                    self.rng.random() < (0.6 if full else 0.2):
                props.append(CIMProperty(
                    d.name, cimgen.value(self.rng, d.type, d.is_array),
                    type=d.type, is_array=d.is_array))
        return CIMInstance(cdef.name, properties=props)

    def populate(self):
        rng = self.rng
        conn = self.conn
        for ns in self.s.namespaces:
            for c in self.schema_classes(ns, assoc=False):
                for _ in range(rng.choice([0, 1, 1, 2])):
                    try:
                        conn.CreateInstance(self.new_instance(c),
                                            namespace=ns)
                    except CIMError:
                        pass
        # associations, also across namespaces
        for ns in self.s.namespaces:
            for c in self.schema_classes(ns, assoc=True):
                for _ in range(rng.choice([1, 2])):
                    inst = self.assoc_instance(ns, c, cross=rng.random() < 0.6)
                    if inst is None:
                        continue
                    try:
                        conn.CreateInstance(inst, namespace=ns)
                    except CIMError:
                        pass

    def endpoint(self, ns, refclass, cross, assoc):
        """Path of an existing instance of refclass (or a subclass), in ns
        or - if cross - in another namespace that also has the association
        class."""
        cands = []
        for ns2 in self.s.namespaces:
            if ns2 != ns and not cross:
                continue
            nk = self.nskey(ns2)
            if not self.s.has_class(nk, assoc.name) or \
                    not self.s.has_class(nk, refclass):
                continue
            rc = self.s.cls(refclass)
            for i in self.instances_of(ns2, rc, subclasses=True):
                cands.append((ns2 != ns, i.path))
        if not cands:
            return None
        if cross and any(c[0] for c in cands) and self.rng.random() < 0.7:
            cands = [c for c in cands if c[0]]
        p = self.rng.choice(cands)[1].copy()
        p.host = None
        return p

    def assoc_instance(self, ns, cdef, cross=False, w=None, extra=None):
        """extra: set the non-key references too (None: half of the time),
        always in the target namespace."""
        refs = [p for p in cdef.props if p.type == 'reference']
        props = []
        if extra is None:
            extra = self.rng.random() < 0.5
        for i, r in enumerate(refs):
            if not r.key and not extra:
                continue
            ep = self.endpoint(ns, r.ref_class, cross and i == 1, cdef)
            if ep is None:
                if not r.key:
                    continue
                return None
            props.append(CIMProperty(r.name, ep, type='reference',
                                     reference_class=r.ref_class))
        for d in cdef.props:
            if d.type == 'uint16':
                props.append(CIMProperty(
                    d.name, pywbem.Uint16(w if w is not None else
                                          self.rng.randint(0, 9)),
                    type='uint16'))
        return CIMInstance(cdef.name, properties=props)

    # ---- good batch elements --------------------------------------------------
    def good_class(self, ns, parent=None):
        name = self.fresh()
        if parent is None and self.rng.random() < 0.4:
            cand = self.pick(self.schema_classes(ns, assoc=False))
            parent = cand.name if cand else None
        pn = self.fresh('p')
        if parent is None:
            body = '    [Key] string k;\n    uint8 %s;\n' % pn
            props = [CIMProperty('k', None, type='string',
                                 qualifiers=[CIMQualifier('Key', True)]),
                     CIMProperty(pn, None, type='uint8')]
        else:
            body = '    sint32 %s = 5;\n' % pn
            props = [CIMProperty(pn, pywbem.Sint32(5), type='sint32')]
        mof = 'class %s%s {\n%s};\n' % (
            name, ' : ' + parent if parent else '', body)
        return Elem(mof, CIMClass(name, properties=props, superclass=parent),
                    [('classes', name.lower())], 'class', name)

    def good_qualifier(self, ns):
        name = self.fresh('C11Q_')
        mof = 'Qualifier %s : string = null, Scope(any), ' \
              'Flavor(EnableOverride, ToSubclass);\n' % name
        return Elem(mof, CIMQualifierDeclaration(
            name, 'string', scopes={'ANY': True}, overridable=True,
            tosubclass=True), [('qualifiers', name.lower())], 'qualifier')

    def mof_instance_classes(self, ns):
        return [c for c in self.schema_classes(ns, assoc=False)
                if all(k.type in MOF_KEY_TYPES for k in self.s.keys(c.name))
                and any(k.type == 'string' for k in self.s.keys(c.name))]

    def instance_mof(self, cdef, props, alias=None):
        return 'instance of %s%s {\n%s};\n' % (
            cdef.name, ' as $%s' % alias if alias else '',
            ''.join('    %s = %s;\n' % (p.name, mof_value(p.value))
                    for p in props))

    def good_instance(self, ns):
        cdef = self.pick(self.mof_instance_classes(ns))
        if cdef is None:
            return None
        props = self.key_props(cdef)
        marker = [p.value for p in props if isinstance(p.value, str) and
                  p.value.startswith('c11v')][0]
        for d in self.s.exposed(cdef.name).values():
            if not d.key and d.type in cimgen.INT_TYPES and not d.is_array \
                    and self.rng.random() < 0.5:
                props.append(CIMProperty(
                    d.name, cimgen.INT_TYPES[d.type](1), type=d.type))
        inst = CIMInstance(cdef.name, properties=props)
        inst.path = CIMInstanceName(
            cdef.name, {p.name: p.value for p in props
                        if self.s.exposed(cdef.name)[p.name.lower()].key})
        return Elem(self.instance_mof(cdef, props), inst,
                    [('instances', marker)], 'instance')

    def good_elem(self, ns, kinds=('class', 'qualifier', 'instance')):
        kind = self.rng.choice(kinds)
        e = None
        if kind == 'instance':
            e = self.good_instance(ns)
        elif kind == 'qualifier':
            e = self.good_qualifier(ns)
        return e or self.good_class(ns)


# ==================================================== batch fault reasons ===
# each returns an Elem (mof and/or obj) or None when not applicable

def _cls_elem(st, name, mof, obj=None):
    return Elem(mof, obj, [('classes', name.lower())], 'class', name)


def b_missing_superclass(st, ns):
    n, sup = st.fresh(), st.fresh('NoSuch_')
    return _cls_elem(st, n, 'class %s : %s {\n    uint8 a;\n};\n' % (n, sup),
                     CIMClass(n, superclass=sup, properties=[
                         CIMProperty('a', None, type='uint8')]))


def b_undeclared_qualifier(st, ns):
    n, q = st.fresh(), st.fresh('NoSuchQ_')
    return _cls_elem(
        st, n, '[%s]\nclass %s {\n    [Key] string k;\n};\n' % (q, n),
        CIMClass(n, qualifiers=[CIMQualifier(q, True)], properties=[
            CIMProperty('k', None, type='string',
                        qualifiers=[CIMQualifier('Key', True)])]))


def b_qualifier_scope(st, ns):
    n = st.fresh()
    return _cls_elem(
        st, n, '[Key]\nclass %s {\n    [Key] string k;\n};\n' % n,
        CIMClass(n, qualifiers=[CIMQualifier('Key', True)], properties=[
            CIMProperty('k', None, type='string',
                        qualifiers=[CIMQualifier('Key', True)])]))


def b_qualifier_value_type(st, ns):
    n = st.fresh()
    return _cls_elem(
        st, n, '[Description(5)]\nclass %s {\n    [Key] string k;\n};\n' % n,
        CIMClass(n, qualifiers=[CIMQualifier('Description', pywbem.Uint8(5))],
                 properties=[CIMProperty('k', None, type='string', qualifiers=[
                     CIMQualifier('Key', True)])]))


def b_reference_class_missing(st, ns):
    n, r = st.fresh(), st.fresh('NoSuch_')
    return _cls_elem(
        st, n, '[Association]\nclass %s {\n    [Key] %s REF l;\n'
        '    [Key] %s REF r;\n};\n' % (n, r, r),
        CIMClass(n, qualifiers=[CIMQualifier('Association', True)],
                 properties=[
                     CIMProperty(x, None, type='reference', reference_class=r,
                                 qualifiers=[CIMQualifier('Key', True)])
                     for x in ('l', 'r')]))


def b_embeddedinstance_class_missing(st, ns):
    n, r = st.fresh(), st.fresh('NoSuch_')
    return _cls_elem(
        st, n, 'class %s {\n    [Key] string k;\n'
        '    [EmbeddedInstance("%s")] string e;\n};\n' % (n, r),
        CIMClass(n, properties=[
            CIMProperty('k', None, type='string',
                        qualifiers=[CIMQualifier('Key', True)]),
            CIMProperty('e', None, type='string', qualifiers=[
                CIMQualifier('EmbeddedInstance', r)])]))


def b_override_type_mismatch(st, ns):
    cands = []
    for c in st.schema_classes(ns, assoc=False):
        for d in st.s.exposed(c.name).values():
            if not d.key and not d.is_array and d.type in ('uint8', 'sint32',
                                                           'boolean', 'uint64'):
                cands.append((c, d))
    if not cands:
        return None
    c, d = st.rng.choice(cands)
    n = st.fresh()
    return _cls_elem(
        st, n, 'class %s : %s {\n    string %s;\n};\n' % (n, c.name, d.name),
        CIMClass(n, superclass=c.name, properties=[
            CIMProperty(d.name, None, type='string')]))


def b_syntax_error(st, ns):
    n = st.fresh()
    return _cls_elem(st, n, st.rng.choice([
        'class %s {\n    uint8 ;\n};\n', 'clazz %s {\n};\n',
        'class %s {\n    [Key] string k\n};\n',
        'class %s {\n    [Key string k;\n};\n']) % n)


def b_duplicate_class(st, ns, want):
    """A class definition identical to an existing class that has instances
    / subclasses (the compiler turns ALREADY_EXISTS into ModifyClass, which
    refuses)."""
    cands = [c for c in st.schema_classes(ns)
             if (want == 'instances' and st.instances_of(ns, c)) or
             (want == 'subclasses' and st.subclasses_of(ns, c))]
    c = st.pick(cands)
    if c is None:
        return None
    return Elem(st.s.class_mof(c), st.s.class_obj(c), [], 'class')


def b_instance_class_missing(st, ns):
    n = st.fresh('NoSuch_')
    inst = CIMInstance(n, {'k': 'x'})
    inst.path = CIMInstanceName(n, {'k': 'x'})
    return Elem('instance of %s {\n    k = "x";\n};\n' % n, None, [],
                'instance')


def _inst_base(st, ns):
    cdef = st.pick(st.mof_instance_classes(ns))
    if cdef is None:
        return None, None
    return cdef, st.key_props(cdef)


def b_instance_undeclared_property(st, ns):
    cdef, props = _inst_base(st, ns)
    if cdef is None:
        return None
    props.append(CIMProperty(st.fresh('nosuch'), pywbem.Uint8(1)))
    return Elem(st.instance_mof(cdef, props), None, [], 'instance')


def b_instance_wrong_value_type(st, ns):
    cdef, props = _inst_base(st, ns)
    if cdef is None:
        return None
    ints = [d for d in st.s.exposed(cdef.name).values()
            if d.type in cimgen.INT_TYPES and not d.is_array and not d.key]
    if not ints:
        return None
    d = st.rng.choice(ints)
    props.append(CIMProperty(d.name, 'not a number'))
    return Elem(st.instance_mof(cdef, props), None, [], 'instance')


def b_instance_missing_key(st, ns):
    cdef, props = _inst_base(st, ns)
    if cdef is None:
        return None
    del props[st.rng.randrange(len(props))]
    inst = CIMInstance(cdef.name, properties=props)
    return Elem(st.instance_mof(cdef, props), inst, [], 'instance')


def b_instance_duplicate(st, ns):
    for cdef in st.mof_instance_classes(ns):
        insts = st.instances_of(ns, cdef)
        if insts:
            i = st.rng.choice(insts)
            props = [i.properties[k.name] for k in st.s.keys(cdef.name)]
            obj = CIMInstance(cdef.name, properties=props)
            obj.path = i.path.copy()
            return Elem(st.instance_mof(cdef, props), obj, [], 'instance')
    return None


def b_missing_include(st, ns):
    return Elem('#pragma include ("%s.mof")\n' % st.fresh('nosuchfile'),
                None, [], 'pragma')


def b_pragma_namespace_missing(st, ns):
    n = st.fresh()
    return Elem('#pragma namespace ("%s")\nclass %s {\n    [Key] string k;\n'
                '};\n' % (st.fresh('nope/ns'), n), None,
                [('classes', n.lower())], 'pragma')


def b_undefined_alias(st, ns):
    c = st.pick(st.schema_classes(ns, assoc=True))
    if c is None:
        return None
    refs = [p for p in c.props if p.type == 'reference' and p.key]
    return Elem('instance of %s {\n%s};\n' % (c.name, ''.join(
        '    %s = $%s;\n' % (r.name, st.fresh('nosuchalias'))
        for r in refs)), None, [], 'instance')


def b_assoc_endpoint_missing(st, ns):
    c = st.pick(st.schema_classes(ns, assoc=True))
    if c is None:
        return None
    inst = st.assoc_instance(ns, c)
    if inst is None:
        return None
    refs = [p for p in c.props if p.type == 'reference' and p.key]
    bad = inst.properties[refs[-1].name].value.copy()
    k = sorted(bad.keybindings)[0]
    if not isinstance(bad.keybindings[k], str):
        return None
    bad.keybindings[k] = st.fresh('c11nosuch')
    inst.properties[refs[-1].name].value = bad
    props = list(inst.properties.values())
    obj = CIMInstance(c.name, properties=props)
    return Elem(st.instance_mof(c, props), obj, [], 'instance')


MOF_REASONS = [
    ('missing-superclass', b_missing_superclass),
    ('undeclared-qualifier', b_undeclared_qualifier),
    ('qualifier-scope', b_qualifier_scope),
    ('qualifier-value-type', b_qualifier_value_type),
    ('reference-class-missing', b_reference_class_missing),
    ('embeddedinstance-class-missing', b_embeddedinstance_class_missing),
    ('override-type-mismatch', b_override_type_mismatch),
    ('syntax-error', b_syntax_error),
    ('instance-class-missing', b_instance_class_missing),
    ('instance-undeclared-property', b_instance_undeclared_property),
    ('instance-wrong-value-type', b_instance_wrong_value_type),
    ('instance-missing-key', b_instance_missing_key),
    ('instance-duplicate', b_instance_duplicate),
    ('missing-include', b_missing_include),
    ('pragma-namespace-missing', b_pragma_namespace_missing),
    ('undefined-alias', b_undefined_alias),
    ('assoc-endpoint-missing', b_assoc_endpoint_missing),
    ('duplicate-class-has-instances',
     lambda st, ns: b_duplicate_class(st, ns, 'instances')),
    ('duplicate-class-has-subclasses',
     lambda st, ns: b_duplicate_class(st, ns, 'subclasses')),
]

# the compiler turns these into a successful Modify... / accepts them
NEVER_REJECTED_BY_COMPILER = ('qualifier-value-type', 'instance-duplicate')

SCHEMA_REASONS = [r for r in MOF_REASONS if r[0] in (
    'missing-superclass', 'undeclared-qualifier', 'qualifier-scope',
    'reference-class-missing', 'embeddedinstance-class-missing',
    'override-type-mismatch', 'syntax-error')]


def o_invalid_object(st, ns):
    return Elem(None, st.rng.choice(['a string', 42, None, ('tuple',)]), [],
                'other')


def o_instance_without_path(st, ns):
    cdef = st.pick(st.schema_classes(ns, assoc=False))
    if cdef is None:
        return None
    return Elem(None, st.new_instance(cdef), [], 'instance')


def o_duplicate_qualifier(st, ns):
    return Elem(None, repogen.qualifier_declarations()[0], [], 'qualifier')


def o_instance_namespace_mismatch(st, ns):
    e = st.good_instance(ns)
    if e is None:
        return None
    e.obj.path.namespace = st.fresh('other/ns')
    return e


OBJ_REASONS = [(r, f) for r, f in MOF_REASONS if r in (
    'missing-superclass', 'undeclared-qualifier', 'qualifier-scope',
    'qualifier-value-type', 'reference-class-missing',
    'embeddedinstance-class-missing', 'override-type-mismatch',
    'instance-duplicate', 'duplicate-class-has-instances',
    'duplicate-class-has-subclasses', 'assoc-endpoint-missing')] + [
    ('invalid-object-type', o_invalid_object),
    ('instance-without-path', o_instance_without_path),
    ('duplicate-qualifier', o_duplicate_qualifier),
    ('instance-namespace-mismatch', o_instance_namespace_mismatch),
]


# ========================================================= the monitor ======

class Monitor:
    def __init__(self, ctx, st, case, n):
        self.ctx = ctx
        self.st = st
        self.case = case
        self.n = n
        self.state_hash = None
        self.last = None

    def faulted(self, api, reason, fn, desc, k=None, n=None, prefix=(),
                batch=False, tag=None, typed=False):
        """Run one faulted call and judge it.  typed: a WBEM operation
        called with arguments of the documented types - whatever it raises
        must be a pywbem.Error."""
        ctx = self.ctx
        st = self.st
        # the dump after the previous faulted call is still valid unless
        # something else changed the repository (st.touched)
        before = self.last if self.last is not None and not st.touched \
            else dump(st.conn)
        st.touched = False
        self.last = None
        if self.state_hash is None:
            self.state_hash = h64(before)
        ctx.evaluated()
        ctx.cls('%s/%s' % (api, reason))
        try:
            fn()
            raised = None
        except CaseTimeout:
            raise
        except BaseException as exc:  # pylint: disable=broad-except
            if isinstance(exc, (KeyboardInterrupt, SystemExit)):
                raise
            raised = exc
        if raised is None:
            ctx.outcome('not-raised')
            ctx.count('not-raised:%s/%s' % (api, reason))
            return None
        ctx.count('raised:' + api)
        ctx.count('raised:%s/%s' % (api, reason))
        if tag:
            ctx.count('raised:' + tag)
        if typed and not isinstance(raised, pywbem.Error):
            import traceback
            ctx.violation(
                'atomicity.exc.%s.%s@%s' % (api, type(raised).__name__,
                                            repogen.mock_frame(raised) or
                                            '<outside-mock>'),
                '%s raised %s: %s - a WBEM operation called with arguments '
                'of the documented types fails with a pywbem.Error' % (
                    desc, type(raised).__name__, short(str(raised), 200)),
                {'api': api, 'reason': reason, 'call': short(desc, 3000),
                 'traceback': ''.join(traceback.format_exception(
                     type(raised), raised, raised.__traceback__)[-5:])[-2500:],
                 'schema': st.s.describe()})
        after = dump(st.conn)
        self.last = after
        big = len(before) >= 2 or dump_size(before) >= 5
        if big and (not batch or (k or 0) >= 1):
            ctx.nontrivial(h64((api, reason, k, n, self.state_hash)))
        if after == before:
            ctx.outcome('raised-unchanged')
            return raised
        diffs = dump_diff(before, after)
        # which mechanism: only the accepted elements before position k were
        # kept (no rollback of a batch), or damage by the rejected element
        marks = set(prefix)
        only_prefix = bool(batch and k and marks) and all(
            ch == 'added' and store != 'namespace' and (
                (store, name) in marks or
                (store in ('instances', 'instance-keys') and
                 any(s == 'instances' and m in name for s, m in marks)))
            for ch, _ns, store, name in diffs)
        mech = 'prefix-kept' if only_prefix else 'own-damage'
        ctx.outcome('raised-changed-' + mech)
        ctx.violation(
            'atomicity.%s.%s.%s' % (api, reason, mech),
            '%s raised %s: %s - but the repository changed: %s' % (
                desc, type(raised).__name__, short(str(raised), 160),
                '; '.join('%s %s %s in %s' % (c, s[:-1] if s.endswith('s')
                                             else s, nm, ns)
                          for c, ns, s, nm in diffs[:6])),
            {'api': api, 'reason': reason, 'k': k, 'n': n,
             'call': short(desc, 3000),
             'changes': [list(d) for d in diffs[:20]],
             'schema': st.s.describe()})
        return raised


def build_batch(st, ns, n, k, bad, kinds=('class', 'qualifier', 'instance')):
    elems = []
    for j in range(n):
        if j == k:
            elems.append(bad)
        else:
            e = st.good_elem(ns, kinds)
            # sometimes chain: subclass of the previous fresh class
            if e.kind == 'class' and elems and elems[-1].kind == 'class' \
                    and elems[-1] is not bad and st.rng.random() < 0.3 \
                    and elems[-1].marks:
                e = st.good_class(ns, parent=_decl_name(elems[-1]))
            elems.append(e)
    return elems


def _decl_name(e):
    """Declared name of a fresh class element."""
    return e.name


def run_batches(mon, st, workdir, n, reasons_filter=None):
    rng = st.rng
    conn = st.conn
    # ---- compile_mof_string / compile_mof_file ------------------------------
    for reason, make in MOF_REASONS:
        if reason in NEVER_REJECTED_BY_COMPILER and n > 1:
            continue        # exercised with n == 1 only (cheap reminder)
        for api in ('compile_mof_string', 'compile_mof_file'):
            for k in range(n):
                ns = st.pick_ns()
                bad = make(st, ns)
                if bad is None or bad.mof is None:
                    mon.ctx.count('not-applicable:%s/%s' % (api, reason))
                    break
                elems = build_batch(st, ns, n, k, bad)
                prefix = [m for e in elems[:k] for m in e.marks]
                if api == 'compile_mof_string':
                    text = ''.join(e.mof for e in elems)
                    mon.faulted(
                        api, reason,
                        lambda: conn.compile_mof_string(text, namespace=ns),
                        'compile_mof_string(%r, namespace=%r) [element %d of '
                        '%d invalid: %s]' % (text, ns, k, n, reason),
                        k, n, prefix, batch=True)
                else:
                    d = os.path.join(workdir, 'f%d' % st.newdir())
                    os.makedirs(d)
                    parts = []
                    for j, e in enumerate(elems):
                        if rng.random() < 0.5 and e.kind != 'pragma':
                            fn_ = 'inc_%d_%d.mof' % (st.dirs, j)
                            with open(os.path.join(d, fn_), 'w',
                                      encoding='utf-8') as f:
                                f.write(e.mof)
                            parts.append('#pragma include ("%s")\n' % fn_)
                        else:
                            parts.append(e.mof)
                    main = os.path.join(d, 'main.mof')
                    with open(main, 'w', encoding='utf-8') as f:
                        f.write(''.join(parts))
                    mon.faulted(
                        api, reason,
                        lambda: conn.compile_mof_file(
                            main, namespace=ns, search_paths=[d]),
                        'compile_mof_file(main.mof = %r with includes of %r, '
                        'namespace=%r) [element %d of %d invalid: %s]' % (
                            ''.join(parts), [e.mof for e in elems], ns, k, n,
                            reason), k, n, prefix, batch=True)
    # whole-call rejection
    text = st.good_class(st.pick_ns()).mof
    mon.faulted('compile_mof_string', 'invalid-namespace',
                lambda: conn.compile_mof_string(text, namespace='nope/c11'),
                'compile_mof_string(%r, namespace="nope/c11")' % text)
    mon.faulted('compile_mof_file', 'file-not-found',
                lambda: conn.compile_mof_file(
                    os.path.join(workdir, 'nosuch.mof'),
                    namespace=st.pick_ns()),
                'compile_mof_file("nosuch.mof")')

    # ---- compile_schema_classes ------------------------------------------------
    for reason, make in SCHEMA_REASONS + [('class-file-missing', None),
                                          ('class-not-in-pragma-file', None)]:
        for k in range(n):
            ns = st.pick_ns()
            d = os.path.join(workdir, 's%d' % st.newdir())
            os.makedirs(os.path.join(d, 'sub'))
            elems = []
            for j in range(n):
                if j == k and make is not None:
                    bad = make(st, ns)
                    if bad is None:
                        break
                    elems.append(bad)
                else:
                    elems.append(st.good_class(ns))
            if len(elems) < n:
                mon.ctx.count('not-applicable:compile_schema_classes/' +
                              reason)
                break
            names = [e.name.lower() for e in elems]
            decl = []
            lines = ['#pragma locale ("en_US")\n']
            for j, e in enumerate(elems):
                cn = e.name
                decl.append(cn)
                lines.append('#pragma include ("sub/%s.mof")\n' % cn)
                if not (reason == 'class-file-missing' and j == k):
                    with open(os.path.join(d, 'sub', cn + '.mof'), 'w',
                              encoding='utf-8') as f:
                        f.write(e.mof)
            pragma = os.path.join(d, 'c11_schema.mof')
            with open(pragma, 'w', encoding='utf-8') as f:
                f.write(''.join(lines))
            req = list(decl)
            if reason == 'class-not-in-pragma-file':
                req[k] = st.fresh('NotListed_')
            prefix = [('classes', nm) for nm in names[:k]]
            mon.faulted(
                'compile_schema_classes', reason,
                lambda: conn.compile_schema_classes(req, pragma,
                                                    namespace=ns),
                'compile_schema_classes(%r, <pragma file listing %r>, '
                'namespace=%r) with class files %r [class %d of %d: %s]' % (
                    req, decl, ns, [e.mof for e in elems], k, n, reason),
                k, n, prefix, batch=True)

    # ---- add_cimobjects(list) -----------------------------------------------------
    for reason, make in OBJ_REASONS:
        for k in range(n):
            ns = st.pick_ns()
            bad = make(st, ns)
            if bad is None or (bad.obj is None and
                               reason != 'invalid-object-type'):
                mon.ctx.count('not-applicable:add_cimobjects/' + reason)
                break
            elems = build_batch(st, ns, n, k, bad)
            objs = [e.obj for e in elems]
            prefix = [m for e in elems[:k] for m in e.marks]
            mon.faulted(
                'add_cimobjects', reason,
                lambda: conn.add_cimobjects(objs, namespace=ns),
                'add_cimobjects(%s, namespace=%r) [element %d of %d invalid: '
                '%s]' % (short(repr([_objdesc(o) for o in objs]), 1500), ns,
                         k, n, reason), k, n, prefix, batch=True)
    objs = [st.good_class(st.pick_ns()).obj]
    mon.faulted('add_cimobjects', 'invalid-namespace',
                lambda: conn.add_cimobjects(objs, namespace='nope/c11'),
                'add_cimobjects([class], namespace="nope/c11")')


def _objdesc(o):
    if isinstance(o, CIMClass):
        return 'CIMClass(%s%s)' % (o.classname, ' : ' + o.superclass
                                   if o.superclass else '')
    if isinstance(o, CIMInstance):
        return 'CIMInstance(%s, path=%s)' % (o.classname, o.path)
    if isinstance(o, CIMQualifierDeclaration):
        return 'CIMQualifierDeclaration(%s)' % o.name
    return repr(o)


# ================================================== single-object faults ====

WBEM_OPERATIONS = ('CreateClass', 'ModifyClass', 'DeleteClass',
                   'SetQualifier', 'DeleteQualifier', 'CreateInstance',
                   'ModifyInstance', 'DeleteInstance')


def respell(rng, ns):
    """The same namespace name in another lexical case."""
    for _ in range(8):
        v = repogen.vcase(rng, ns)
        if v != ns:
            return v
    return ns.swapcase()


def run_singles(mon, st):
    rng = st.rng
    conn = st.conn
    s = st.s

    def go(api, reason, fn, desc, tag=None):
        return mon.faulted(api, reason, fn, desc, tag=tag,
                           typed=api in WBEM_OPERATIONS and
                           reason != 'invalid-type')

    for ns in s.namespaces:
        # ---------------------------------------------------------- classes
        for reason, make in MOF_REASONS:
            if reason not in ('missing-superclass', 'undeclared-qualifier',
                              'qualifier-scope', 'reference-class-missing',
                              'embeddedinstance-class-missing',
                              'override-type-mismatch',
                              'duplicate-class-has-instances'):
                continue
            e = make(st, ns)
            if e is None or e.obj is None:
                continue
            r = 'already-exists' if reason.startswith('duplicate') else reason
            go('CreateClass', r,
               lambda e=e: conn.CreateClass(e.obj, namespace=ns),
               'CreateClass(%s, namespace=%r)' % (_objdesc(e.obj), ns))
        e = st.good_class(ns)
        go('CreateClass', 'invalid-namespace',
           lambda: conn.CreateClass(e.obj, namespace='nope/c11'),
           'CreateClass(%s, namespace="nope/c11")' % _objdesc(e.obj))

        classes = st.schema_classes(ns)
        with_sub = [c for c in classes if st.subclasses_of(ns, c)]
        with_inst = [c for c in classes if st.instances_of(ns, c)]
        free = [c for c in classes if not st.subclasses_of(ns, c) and
                not st.instances_of(ns, c)]
        c = st.pick(with_sub)
        if c:
            go('ModifyClass', 'has-subclasses',
               lambda: conn.ModifyClass(s.class_obj(c), namespace=ns),
               'ModifyClass(%s, namespace=%r) [has subclasses]' % (c.name, ns))
        c = st.pick(with_inst)
        if c:
            go('ModifyClass', 'has-instances',
               lambda: conn.ModifyClass(s.class_obj(c), namespace=ns),
               'ModifyClass(%s, namespace=%r) [has instances]' % (c.name, ns))
        go('ModifyClass', 'not-found',
           lambda: conn.ModifyClass(st.good_class(ns).obj, namespace=ns),
           'ModifyClass(<class not in repository>, namespace=%r)' % ns)
        c = st.pick(classes)
        if c:
            go('ModifyClass', 'invalid-namespace',
               lambda: conn.ModifyClass(s.class_obj(c), namespace='nope/c11'),
               'ModifyClass(%s, namespace="nope/c11")' % c.name)
        for c in free[:2]:
            base = s.class_obj(c)
            variants = []
            v = deepcopy(base)
            v.superclass = st.fresh('NoSuch_')
            variants.append(('superclass-missing', v))
            other = [x for x in classes if x.name.lower() not in
                     (c.name.lower(), (c.superclass or '').lower()) and
                     not x.assoc]
            if other:
                v = deepcopy(base)
                v.superclass = rng.choice(other).name
                variants.append(('superclass-changed', v))
            v = deepcopy(base)
            qn = st.fresh('NoSuchQ_')
            v.qualifiers[qn] = CIMQualifier(qn, True)
            variants.append(('undeclared-qualifier', v))
            v = deepcopy(base)
            v.properties['c11ref'] = CIMProperty(
                'c11ref', None, type='reference',
                reference_class=st.fresh('NoSuch_'))
            variants.append(('reference-class-missing', v))
            v = deepcopy(base)
            v.qualifiers['Key'] = CIMQualifier('Key', True)
            variants.append(('qualifier-scope', v))
            for reason, v in variants:
                go('ModifyClass', reason,
                   lambda v=v: conn.ModifyClass(v, namespace=ns),
                   'ModifyClass(%s, namespace=%r) [%s]' % (
                       _objdesc(v), ns, reason))
        go('DeleteClass', 'not-found',
           lambda: conn.DeleteClass(st.fresh('NoSuch_'), namespace=ns),
           'DeleteClass(<unknown>, namespace=%r)' % ns)
        if classes:
            go('DeleteClass', 'invalid-namespace',
               lambda: conn.DeleteClass(classes[0].name,
                                        namespace='nope/c11'),
               'DeleteClass(%s, namespace="nope/c11")' % classes[0].name)

        # ------------------------------------------------------- qualifiers
        qd = st.good_qualifier(ns).obj
        go('SetQualifier', 'invalid-namespace',
           lambda: conn.SetQualifier(qd, namespace='nope/c11'),
           'SetQualifier(%s, namespace="nope/c11")' % qd.name)
        go('SetQualifier', 'invalid-type',
           lambda: conn.SetQualifier('Key', namespace=ns),
           'SetQualifier("Key" (a string), namespace=%r)' % ns)
        go('DeleteQualifier', 'not-found',
           lambda: conn.DeleteQualifier(st.fresh('NoSuchQ_'), namespace=ns),
           'DeleteQualifier(<unknown>, namespace=%r)' % ns)
        go('DeleteQualifier', 'in-use',
           lambda: conn.DeleteQualifier(rng.choice(['Key', 'key', 'KEY']),
                                        namespace=ns),
           'DeleteQualifier("Key", namespace=%r) [used by classes]' % ns)
        go('DeleteQualifier', 'invalid-namespace',
           lambda: conn.DeleteQualifier('Key', namespace='nope/c11'),
           'DeleteQualifier("Key", namespace="nope/c11")')

        # -------------------------------------------------------- instances
        plain = st.schema_classes(ns, assoc=False)
        c = st.pick(plain)
        if c:
            exposed = s.exposed(c.name)
            nonkey = [d for d in exposed.values() if not d.key]

            def mk(extra=(), drop_key=False, null_key=False):
                inst = st.new_instance(c, full=False)
                if drop_key or null_key:
                    kn = rng.choice(s.keys(c.name)).name
                    if drop_key:
                        del inst.properties[kn]
                    else:
                        inst.properties[kn] = CIMProperty(
                            kn, None, type=exposed[kn.lower()].type)
                for p in extra:
                    inst.properties[p.name] = p
                return inst
            variants = [
                ('unknown-namespace', mk(), 'nope/c11'),
                ('undeclared-property',
                 mk([CIMProperty(st.fresh('nosuch'), 'x')]), ns),
                ('missing-key', mk(drop_key=True), ns),
                ('null-key', mk(null_key=True), ns),
            ]
            if nonkey:
                d = rng.choice(nonkey)
                t = rng.choice([x for x in cimgen.SIMPLE_TYPES
                                if x != d.type])
                variants.append(('wrong-type', mk([CIMProperty(
                    d.name, cimgen.value(rng, t, d.is_array, null=0),
                    type=t, is_array=d.is_array)]), ns))
                variants.append(('wrong-arrayness', mk([CIMProperty(
                    d.name, cimgen.value(rng, d.type, not d.is_array, null=0),
                    type=d.type, is_array=not d.is_array)]), ns))
            unk = mk()
            unk.classname = st.fresh('NoSuch_')
            variants.append(('unknown-class', unk, ns))
            emb = [d for d in nonkey if d.embedded]
            embvars = []
            if emb:
                ed = rng.choice(emb)
                unrelated = [x.name for x in plain if not any(
                    a.name.lower() == ed.embedded.lower()
                    for a in s.ancestors(x.name))]
                embvars = [('embedded-instance-of-unknown-class',
                            st.fresh('NoSuch_'))]
                if unrelated:
                    embvars.append(('embedded-instance-of-unrelated-class',
                                    rng.choice(unrelated)))
                for reason, ecn in embvars:
                    variants.append((reason, mk([CIMProperty(
                        ed.name, CIMInstance(ecn, {'a': 'b'}))]), ns))
            strs = [d for d in nonkey if d.type == 'string' and
                    not d.is_array and not d.embedded]
            if strs:
                variants.append(('embedded-instance-undeclared', mk([
                    CIMProperty(rng.choice(strs).name,
                                CIMInstance(c.name, {'a': 'b'}))]), ns))
            ex = st.pick(st.instances_of(ns, c))
            if ex is not None:
                dup = CIMInstance(c.name, properties=[
                    ex.properties[k.name] for k in s.keys(c.name)])
                variants.append(('duplicate', dup, ns))
            for reason, inst, target in variants:
                go('CreateInstance', reason,
                   lambda inst=inst, target=target: conn.CreateInstance(
                       inst, namespace=target),
                   'CreateInstance(%s, namespace=%r) [%s]' % (
                       short(repr(inst), 400), target, reason))
            # Modify / Delete on an existing instance
            if ex is not None:
                path = ex.path.copy()

                def mi(props=(), cls=None, p=None):
                    m = CIMInstance(cls or c.name, properties=list(props))
                    m.path = (p or path).copy()
                    return m
                keys = s.keys(c.name)
                kd = rng.choice(keys)
                for _ in range(5):
                    newkey = repogen.key_value(rng, kd.type)
                    if newkey != ex.properties[kd.name].value:
                        break
                nf = path.copy()
                nf.keybindings[kd.name] = newkey
                nons = path.copy()
                nons.namespace = 'nope/c11'
                nocls = path.copy()
                nocls.classname = st.fresh('NoSuch_')
                mvars = [
                    ('unknown-namespace', mi(p=nons), None),
                    ('unknown-class', mi(cls=nocls.classname, p=nocls), None),
                    ('classname-mismatch', mi(cls=st.fresh('Other_')), None),
                    ('undeclared-property',
                     mi([CIMProperty(st.fresh('nosuch'), 'x')]), None),
                    ('propertylist-undeclared', mi(), ['zz_nosuch']),
                ]
                if newkey != ex.properties[kd.name].value:
                    mvars.append(('not-found', mi(p=nf), None))
                    mvars.append(('key-change', mi([CIMProperty(
                        kd.name, newkey, type=kd.type)]), None))
                if nonkey:
                    d = rng.choice(nonkey)
                    t = rng.choice([x for x in cimgen.SIMPLE_TYPES
                                    if x != d.type])
                    mvars.append(('wrong-type', mi([
                        CIMProperty(d.name, cimgen.value(
                            rng, t, d.is_array, null=0), type=t,
                            is_array=d.is_array)]), None))
                    nodef = [x for x in nonkey if x.default is None]
                    if nodef:
                        mvars.append(('propertylist-default-null', mi(),
                                      [rng.choice(nodef).name]))
                for reason, ecn in embvars:
                    mvars.append((reason, mi([CIMProperty(
                        ed.name, CIMInstance(ecn, {'a': 'b'}))]), None))
                mvars.append(('null-key', mi([CIMProperty(
                    kd.name, None, type=kd.type)]), None))
                for reason, m, pl in mvars:
                    go('ModifyInstance', reason,
                       lambda m=m, pl=pl: conn.ModifyInstance(
                           m, PropertyList=pl),
                       'ModifyInstance(%s, PropertyList=%r) [%s]' % (
                           short(repr(m), 400), pl, reason))
                dvars = [('unknown-namespace', nons), ('unknown-class', nocls)]
                if newkey != ex.properties[kd.name].value:
                    dvars.append(('not-found', nf))
                for reason, p in dvars:
                    go('DeleteInstance', reason,
                       lambda p=p: conn.DeleteInstance(p),
                       'DeleteInstance(%s) [%s]' % (p, reason))

        # ---------------------------------------------------- associations
        for ac in st.schema_classes(ns, assoc=True):
            refs = [p for p in ac.props if p.type == 'reference' and p.key]
            xrefs = [p for p in ac.props
                     if p.type == 'reference' and not p.key]
            for cross in (False, True):
                inst = st.assoc_instance(ns, ac, cross=cross)
                if inst is None:
                    continue
                multi = any(p.value.namespace.lower() != st.nskey(ns)
                            for p in inst.properties.values()
                            if p.type == 'reference')
                tag = 'multins-association' if multi else None
                last = refs[-1].name
                variants = []
                v = deepcopy(inst)
                bad = v.properties[last].value.copy()
                k0 = sorted(bad.keybindings)[0]
                bad.keybindings[k0] = st.fresh('c11nosuch') \
                    if isinstance(bad.keybindings[k0], str) else \
                    repogen.key_value(rng, 'uint8')
                v.properties[last].value = bad
                variants.append(('assoc-endpoint-missing', v))
                v = deepcopy(inst)
                ep = v.properties[last].value.copy()
                ep.host = 'somehost'
                v.properties[last].value = ep
                variants.append(('assoc-endpoint-with-host', v))
                v = deepcopy(inst)
                ep = v.properties[last].value.copy()
                ep.namespace = None
                v.properties[last].value = ep
                variants.append(('assoc-reference-without-namespace', v))
                v = deepcopy(inst)
                ep = v.properties[last].value.copy()
                ep.namespace = 'nope/c11'
                v.properties[last].value = ep
                variants.append(('assoc-reference-unknown-namespace', v))
                v = deepcopy(inst)
                v.properties[last] = CIMProperty(
                    last, None, type='reference',
                    reference_class=refs[-1].ref_class)
                # NULL first reference keeps the multi-namespace path busy
                variants.append(('assoc-null-reference', v))
                v = deepcopy(inst)
                del v.properties[refs[0].name]
                variants.append(('assoc-missing-key-reference', v))
                for reason, v in variants:
                    go('CreateInstance', reason,
                       lambda v=v: conn.CreateInstance(v, namespace=ns),
                       'CreateInstance(%s, namespace=%r) [%s%s]' % (
                           short(repr(v), 500), ns, reason,
                           ', cross-namespace' if multi else ''), tag=tag)
                class_gone = False
                if multi:
                    other_ns = [p.value.namespace for p in
                                inst.properties.values()
                                if p.type == 'reference' and
                                p.value.namespace.lower() != st.nskey(ns)][0]
                    # The same association already exists in ONE of the two
                    # namespaces only (put there with add_cimobjects): first
                    # in the other namespace, then - on a second pass after
                    # removing it again - in the target namespace.
                    for where, plant_ns in (('other', other_ns),
                                            ('target', ns)):
                        shadow = deepcopy(inst)
                        shadow.path = CIMInstanceName(
                            ac.name, {r.name: inst.properties[r.name].value
                                      for r in refs}, namespace=plant_ns)
                        try:
                            st.touched = True
                            conn.add_cimobjects(shadow, namespace=plant_ns)
                        except Exception as _exc:  # pylint: disable=W0703
                            mon.ctx.count('plant-failed:' +
                                          type(_exc).__name__)
                            break
                        go('CreateInstance',
                           'multins-exists-in-%s-namespace-only' % where,
                           lambda: conn.CreateInstance(inst, namespace=ns),
                           'CreateInstance(%s, namespace=%r) [the instance '
                           'exists only in namespace %r]' % (
                               short(repr(inst), 500), ns, plant_ns), tag=tag)
                        # the planted instance has no twin: Modify and Delete
                        # through its namespace must fail as a whole
                        m = CIMInstance(ac.name)
                        for d in ac.props:
                            if d.type == 'uint16':
                                m.properties[d.name] = CIMProperty(
                                    d.name, pywbem.Uint16(77), type='uint16')
                        m.path = shadow.path.copy()
                        go('ModifyInstance', 'multins-twin-missing',
                           lambda m=m: conn.ModifyInstance(m),
                           'ModifyInstance(%s) [cross-namespace association '
                           'present in %r only]' % (short(repr(m), 500),
                                                    plant_ns), tag=tag)
                        go('DeleteInstance', 'multins-twin-missing',
                           lambda shadow=shadow: conn.DeleteInstance(
                               shadow.path),
                           'DeleteInstance(%s) [cross-namespace association '
                           'present in %r only]' % (shadow.path, plant_ns),
                           tag=tag)
                        # DeleteClass deletes the instances one by one; the
                        # planted one has no twin.  (Since the repair of
                        # DeleteInstance for one-sided associations this
                        # succeeds and removes the class, so it is the last
                        # step of the last pass.)
                        if where == 'target' and rng.random() < 0.15:
                            class_gone = go(
                                'DeleteClass', 'instance-delete-fails-midway',
                           lambda: conn.DeleteClass(ac.name,
                                                    namespace=plant_ns),
                           'DeleteClass(%r, namespace=%r) [%d instances, one '
                           'of them a cross-namespace association present in '
                           'this namespace only: %s]' % (
                               ac.name, plant_ns,
                               len(st.instances_of(plant_ns, ac)),
                               shadow.path), tag=tag) is None
                        # remove the planted instance again, if the calls
                        # above left it there (store accessor)
                        try:
                            st.touched = True
                            conn.cimrepository.get_instance_store(
                                plant_ns).delete(shadow.path)
                        except (KeyError, pywbem.Error):
                            pass
                    if class_gone:
                        # the class was deleted in one namespace: nothing
                        # more to do with this association class
                        mon.ctx.count('assoc-class-deleted-by-scenario')
                        continue
                # namespace names are case insensitive: the same call with
                # the namespaces spelled differently in the references or in
                # the namespace parameter (valid unless the instance exists;
                # judged only if it raises)
                v = deepcopy(inst)
                for p in v.properties.values():
                    if p.type == 'reference':
                        ep = p.value.copy()
                        ep.namespace = respell(rng, ep.namespace)
                        p.value = ep
                target = rng.choice([ns, respell(rng, ns)])
                go('CreateInstance', 'assoc-namespace-spelling',
                   lambda: conn.CreateInstance(v, namespace=target),
                   'CreateInstance(%s, namespace=%r) [namespace names '
                   're-spelled%s]' % (short(repr(v), 500), target,
                                      ', cross-namespace' if multi else ''),
                   tag=tag)
            # an existing association instance: modify faults
            ex = st.pick(st.instances_of(ns, ac))
            if ex is not None:
                multi = any(p.value is not None and
                            p.value.namespace.lower() != st.nskey(ns)
                            for p in ex.properties.values()
                            if p.type == 'reference')
                tag = 'multins-association' if multi else None
                last = refs[-1].name
                m = CIMInstance(ac.name, properties=[CIMProperty(
                    last, None, type='reference',
                    reference_class=refs[-1].ref_class)])
                m.path = ex.path.copy()
                go('ModifyInstance', 'assoc-reference-null',
                   lambda m=m: conn.ModifyInstance(m, PropertyList=[last]),
                   'ModifyInstance(%s) [reference set to NULL]' %
                   short(repr(m), 400), tag=tag)
                m2 = CIMInstance(ac.name, properties=[
                    CIMProperty(d.name, pywbem.Uint16(5), type='uint16')
                    for d in ac.props if d.type == 'uint16'] + [
                    CIMProperty(st.fresh('nosuch'), 'x')])
                m2.path = ex.path.copy()
                go('ModifyInstance', 'assoc-undeclared-property',
                   lambda m2=m2: conn.ModifyInstance(m2),
                   'ModifyInstance(%s)' % short(repr(m2), 400), tag=tag)
                # a further reference the stored instance does not have yet
                # (or has as NULL): to a missing end point, then a valid one
                bare = [i for i in st.instances_of(ns, ac) if any(
                    i.properties.get(x.name) is None or
                    i.properties[x.name].value is None for x in xrefs)]
                if xrefs and bare:
                    tgt = rng.choice(bare)
                    x = [x for x in xrefs
                         if tgt.properties.get(x.name) is None or
                         tgt.properties[x.name].value is None][0]
                    ep = st.endpoint(ns, x.ref_class, False, ac)
                    if ep is not None:
                        missing = ep.copy()
                        k0 = sorted(missing.keybindings)[0]
                        missing.keybindings[k0] = st.fresh('c11nosuch') \
                            if isinstance(missing.keybindings[k0], str) \
                            else repogen.key_value(rng, 'uint8')
                        for reason, val in (
                                ('assoc-new-reference-endpoint-missing',
                                 missing),
                                ('assoc-new-reference', ep)):
                            m3 = CIMInstance(ac.name, properties=[
                                CIMProperty(x.name, val, type='reference',
                                            reference_class=x.ref_class)])
                            m3.path = tgt.path.copy()
                            go('ModifyInstance', reason,
                               lambda m3=m3: conn.ModifyInstance(m3),
                               'ModifyInstance(%s) [stored instance has no '
                               'value for %s]' % (short(repr(m3), 500),
                                                  x.name), tag=tag)
                # the same instance addressed with the namespace spelled
                # differently: a valid modification, then a valid deletion
                m4 = CIMInstance(ac.name, properties=[
                    CIMProperty(d.name, pywbem.Uint16(6), type='uint16')
                    for d in ac.props if d.type == 'uint16'])
                m4.path = ex.path.copy()
                m4.path.namespace = respell(rng, m4.path.namespace)
                go('ModifyInstance', 'assoc-namespace-spelling',
                   lambda: conn.ModifyInstance(m4),
                   'ModifyInstance(%s) [namespace re-spelled]' %
                   short(repr(m4), 500), tag=tag)
                if rng.random() < 0.5:
                    dp = ex.path.copy()
                    dp.namespace = respell(rng, dp.namespace)
                    go('DeleteInstance', 'assoc-namespace-spelling',
                       lambda: conn.DeleteInstance(dp),
                       'DeleteInstance(%s) [namespace re-spelled]' % dp,
                       tag=tag)

    # ------------------------------------------------------------ namespaces
    ns = st.pick_ns()
    go('add_namespace', 'already-exists',
       lambda: conn.add_namespace(repogen.vcase(rng, ns)),
       'add_namespace(%r) [exists]' % ns)
    go('add_namespace', 'already-exists-slashes',
       lambda: conn.add_namespace('/' + ns + '/'),
       'add_namespace(%r) [exists]' % ('/' + ns + '/'))
    go('add_namespace', 'none', lambda: conn.add_namespace(None),
       'add_namespace(None)')
    go('remove_namespace', 'not-found',
       lambda: conn.remove_namespace('nope/c11'),
       'remove_namespace("nope/c11")')
    go('remove_namespace', 'not-empty',
       lambda: conn.remove_namespace(repogen.vcase(rng, ns)),
       'remove_namespace(%r) [holds objects]' % ns)
    go('remove_namespace', 'none', lambda: conn.remove_namespace(None),
       'remove_namespace(None)')
    # a second Interop namespace is refused
    try:
        if conn.find_interop_namespace() is None:
            st.touched = True
            conn.add_namespace('interop')
        go('add_namespace', 'second-interop',
           lambda: conn.add_namespace('root/interop'),
           'add_namespace("root/interop") [interop exists]')
        go('remove_namespace', 'interop',
           lambda: conn.remove_namespace('interop'),
           'remove_namespace("interop")')
    except CIMError:
        pass


NSPROV_MOF = '''
Qualifier Key : boolean = false, Scope(property, reference),
    Flavor(DisableOverride, ToSubclass);
Qualifier Description : string = null, Scope(any),
    Flavor(EnableOverride, ToSubclass, Translatable);
class CIM_Namespace {
    [Key] string SystemCreationClassName;
    [Key] string SystemName;
    [Key] string ObjectManagerCreationClassName;
    [Key] string ObjectManagerName;
    [Key] string CreationClassName;
    [Key] string Name;
    uint16 ClassInfo;
    string DescriptionOfClassInfo;
    uint16 ClassType;
    string DescriptionOfClassType;
};
'''


def run_namespace_provider(mon, st):
    """Single-object faults through the CIM_Namespace provider (added after
    seeded change C11-3: CreateInstance/DeleteInstance of CIM_Namespace
    instances are repository-changing calls like add/remove_namespace)."""
    conn = st.conn
    rng = st.rng
    try:
        st.touched = True
        interop = conn.find_interop_namespace()
        if interop is None:
            interop = 'interop'
            conn.add_namespace(interop)
        try:
            conn.GetClass('CIM_Namespace', namespace=interop)
        except CIMError:
            conn.compile_mof_string(NSPROV_MOF, namespace=interop)
        conn.install_namespace_provider(interop)
        insts = conn.EnumerateInstances('CIM_Namespace', namespace=interop)
    except CaseTimeout:
        raise
    except Exception:  # pylint: disable=broad-except
        mon.ctx.outcome('namespace-provider-not-installable')
        return
    st.touched = True
    mon.ctx.count('namespace-provider-installed')

    def go(api, reason, fn, desc):
        return mon.faulted(api, reason, fn, desc, tag='namespace-provider',
                           typed=True)

    nonempty = [i for i in insts
                if i['Name'].lower() != interop.lower() and
                i['Name'].lower() in [n.lower() for n in st.s.namespaces]]
    for inst in nonempty[:2]:
        go('DeleteInstance', 'cim_namespace-of-non-empty-namespace',
           lambda inst=inst: conn.DeleteInstance(inst.path),
           'DeleteInstance(%s) [CIM_Namespace instance of namespace %r, '
           'which holds objects]' % (inst.path, inst['Name']))
    if insts:
        ex = rng.choice(insts)
        dup = CIMInstance('CIM_Namespace', properties=[
            (k, v) for k, v in ex.properties.items()])
        go('CreateInstance', 'cim_namespace-already-exists',
           lambda: conn.CreateInstance(dup, namespace=interop),
           'CreateInstance(CIM_Namespace Name=%r) [exists]' % ex['Name'])
        noname = CIMInstance('CIM_Namespace', properties=[
            (k, v) for k, v in ex.properties.items() if k.lower() != 'name'])
        go('CreateInstance', 'cim_namespace-without-name',
           lambda: conn.CreateInstance(noname, namespace=interop),
           'CreateInstance(CIM_Namespace without Name)')
        partial = CIMInstance('CIM_Namespace', properties=[
            ('Name', st.fresh('newns')), ('CreationClassName', 'CIM_Namespace'),
            ('NoSuchProperty', 'x')])
        go('CreateInstance', 'cim_namespace-undeclared-property',
           lambda: conn.CreateInstance(partial, namespace=interop),
           'CreateInstance(CIM_Namespace Name=%r with an undeclared '
           'property)' % partial['Name'])
        # CIM_Namespace instances for a new namespace that the provider (not
        # the dispatcher) has to reject: lacking a key other than Name and
        # CreationClassName, a NULL key, a CreationClassName that is not the
        # class name, a NULL Name, the name of a second Interop namespace
        full = [(k, p.value) for k, p in ex.properties.items()
                if p.value is not None and k.lower() != 'name']
        others = [k for k, _ in full if k.lower() != 'creationclassname']
        if others:
            victim = rng.choice(others)
            newname = st.fresh('c11ns')
            lacking = CIMInstance('CIM_Namespace', properties=[
                (k, v) for k, v in full if k != victim] + [('Name', newname)])
            go('CreateInstance', 'cim_namespace-missing-key',
               lambda: conn.CreateInstance(lacking, namespace=interop),
               'CreateInstance(CIM_Namespace Name=%r without key property '
               '%s)' % (newname, victim))
            newname = st.fresh('c11ns')
            nullkey = CIMInstance('CIM_Namespace', properties=[
                CIMProperty(k, None if k == victim else v, type='string')
                for k, v in full] + [CIMProperty('Name', newname)])
            go('CreateInstance', 'cim_namespace-null-key',
               lambda: conn.CreateInstance(nullkey, namespace=interop),
               'CreateInstance(CIM_Namespace Name=%r with key property %s '
               'NULL)' % (newname, victim))
        newname = st.fresh('c11ns')
        wrongccn = CIMInstance('CIM_Namespace', properties=[
            (k, 'CIM_Other' if k.lower() == 'creationclassname' else v)
            for k, v in full] + [('Name', newname)])
        go('CreateInstance', 'cim_namespace-creationclassname-mismatch',
           lambda: conn.CreateInstance(wrongccn, namespace=interop),
           'CreateInstance(CIM_Namespace Name=%r CreationClassName='
           '"CIM_Other")' % newname)
        nullname = CIMInstance('CIM_Namespace', properties=[
            CIMProperty(k, v, type='string') for k, v in full] + [
            CIMProperty('Name', None, type='string')])
        go('CreateInstance', 'cim_namespace-null-name',
           lambda: conn.CreateInstance(nullname, namespace=interop),
           'CreateInstance(CIM_Namespace Name=NULL)')
        second = [n for n in ('interop', 'root/interop', 'root/PG_Interop')
                  if n.lower() != interop.lower()][0]
        secondi = CIMInstance('CIM_Namespace', properties=full + [
            ('Name', second)])
        go('CreateInstance', 'cim_namespace-second-interop',
           lambda: conn.CreateInstance(secondi, namespace=interop),
           'CreateInstance(CIM_Namespace Name=%r) [an Interop namespace '
           'exists]' % second)
        wrongns = CIMInstance('CIM_Namespace', properties=[
            (k, v) for k, v in ex.properties.items() if k.lower() != 'name'] +
            [('Name', st.fresh('otherns'))])
        other = [n for n in st.s.namespaces if n.lower() != interop.lower()]
        if other:
            go('CreateInstance', 'cim_namespace-in-non-interop-namespace',
               lambda: conn.CreateInstance(wrongns, namespace=other[0]),
               'CreateInstance(CIM_Namespace) in namespace %r' % other[0])
        mod = CIMInstance('CIM_Namespace', properties=[
            ('DescriptionOfClassInfo', 'changed')])
        mod.path = ex.path.copy()
        go('ModifyInstance', 'cim_namespace',
           lambda: conn.ModifyInstance(mod),
           'ModifyInstance(CIM_Namespace Name=%r)' % ex['Name'])


def run_case(ctx, i, rng):
    nmax = 4 if ctx.tier == 'quick' else 8
    # cycles through 1..nmax for any worker stride (case i goes to worker
    # i mod W)
    n = 1 + (i + i // nmax) % nmax
    schema = repogen.gen_schema(rng, with_assoc=True, min_ns=2,
                                ascii_only=True, with_embedded=True)
    base = os.environ.get('VERIF_WORKDIR')
    workdir = tempfile.mkdtemp(prefix='c11-%d-' % i, dir=base)
    try:
        st = State(ctx, rng, schema)
        mon = Monitor(ctx, st, i, n)
        ctx.cls('batch-length-%d' % n)
        ctx.cls('namespaces-%d' % len(schema.namespaces))
        run_singles(mon, st)
        run_batches(mon, st, workdir, n)
        if rng.random() < 0.5:
            run_namespace_provider(mon, st)
        if i % 7 == 0:
            d = dump(st.conn)
            ctx.sample({'schema': schema.describe(), 'batch_length': n,
                        'objects_at_end': dump_size(d),
                        'namespaces_at_end': list(d)})
    finally:
        shutil.rmtree(workdir, ignore_errors=True)
