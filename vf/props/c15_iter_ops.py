"""C15 - Iter... operations equal the traditional result, with or without pull;
clean up.

Differential monitor: every Iter... call of a generated sequence is executed
(1) as the equivalent traditional operation, (2) on a fresh connection against
the same server state, (3) on the shared connection of the sequence with a
generated consumption pattern.  The three are compared as the property states;
the server's enumeration context table is the clean-up oracle.
"""
import gc
import sys
import warnings
from collections import Counter

import pywbem
from pywbem import CIMError, CIMInstanceName, CIMInstance

from vf import pullgen
from vf.pullgen import DEFAULT_NS
from vf.fingerprint import fp
from vf.reach import Reach
from vf.runner import h64, short, CaseTimeout

META = dict(
    id='C15',
    level='exploration',
    technique='runtime monitoring: differential monitor Iter... vs traditional '
              'operation vs fresh connection on a stateful mock server, '
              'request tap on the connection for path detection / fault '
              'injection, context-table clean-up oracle, sys.monitoring reach '
              'counters',
    level_text='Seeded sequences of 1-6 Iter... calls on one '
               'FakedWBEMConnection: 7 operations x use_pull_operations '
               'True/False/None x server pull enabled/disabled/toggled between '
               'calls/toggled mid-iteration x MaxObjectCount 1..N+1 and invalid '
               'values x result sizes 0..40 x consumption (exhaust, close() '
               'after k, drop + gc, injected server error on the j-th pull) x '
               'FilterQuery/ContinueOnError.  Held-on-K-configurations '
               'evidence, not a proof.',
    level_note='Trusted: the documented-outcome table in expected_outcomes() '
               '(transcribed from the WBEMConnection docstrings), '
               'FakedWBEMConnection.copy() as "fresh connection on the same '
               'server", strict fingerprints modulo path.host.',
    design_ref='DESIGN.md section 3, C15',
    rule='case = one sequence of Iter... calls; evaluation = one call '
         '(configuration); non-trivial if the shared connection made at least '
         '2 server round trips for it; distinct by (operation, '
         'use_pull_operations, server state, MaxObjectCount, result size, '
         'FilterQuery/ContinueOnError, consumption pattern, preceding calls)',
    assumptions=[
        'object equality between the pull path and the traditional path is '
        'taken modulo path.host (the mock returns host=None through the pull '
        'operations); host is asserted on the Enumerate... fallback, where '
        'the traditional response format has no host',
        'with FilterQuery given the mock does not filter; the yielded objects '
        'are then only required to be a sub-multiset of the unfiltered '
        'traditional result',
        'ContinueOnError=False on the traditional fallback may raise '
        'ValueError or be served (the documentation is not explicit)',
        'the mock has no query engine: IterQueryInstances can only be checked '
        'for its documented errors and for clean-up',
    ],
    min_eval=800, min_distinct=200,
    required_events=['MainProvider._pull_response',
                     'MainProvider._open_response',
                     'MainProvider.CloseEnumeration',
                     'checked:equal-to-traditional', 'checked:cleanup',
                     'checked:fresh-vs-shared', 'checked:fallback-host',
                     'path:pull', 'path:fallback'],
)

REACH = ['pywbem_mock._mainprovider:MainProvider._pull_response',
         'pywbem_mock._mainprovider:MainProvider._open_response',
         'pywbem_mock._mainprovider:MainProvider.CloseEnumeration',
         'pywbem._cim_operations:_validate_MaxObjectCount_Iter',
         'pywbem._cim_operations:WBEMConnection.IterEnumerateInstances',
         'pywbem._cim_operations:WBEMConnection.IterEnumerateInstancePaths',
         'pywbem._cim_operations:WBEMConnection.IterAssociatorInstances',
         'pywbem._cim_operations:WBEMConnection.IterAssociatorInstancePaths',
         'pywbem._cim_operations:WBEMConnection.IterReferenceInstances',
         'pywbem._cim_operations:WBEMConnection.IterReferenceInstancePaths',
         'pywbem._cim_operations:WBEMConnection.IterQueryInstances']

NOT_SUPPORTED = pywbem.CIM_ERR_NOT_SUPPORTED

# Iter operation -> (traditional operation, Open operation, enumerate family?)
OPS = {
    'IterEnumerateInstances': ('EnumerateInstances',
                               'OpenEnumerateInstances', True),
    'IterEnumerateInstancePaths': ('EnumerateInstanceNames',
                                   'OpenEnumerateInstancePaths', True),
    'IterAssociatorInstances': ('Associators', 'OpenAssociatorInstances',
                                False),
    'IterAssociatorInstancePaths': ('AssociatorNames',
                                    'OpenAssociatorInstancePaths', False),
    'IterReferenceInstances': ('References', 'OpenReferenceInstances', False),
    'IterReferenceInstancePaths': ('ReferenceNames',
                                   'OpenReferenceInstancePaths', False),
    'IterQueryInstances': ('ExecQuery', 'OpenQueryInstances', False),
}
DOC_REF = ("WBEMConnection docstring, parameter use_pull_operations: 'None "
           "means that the Iter...() methods will attempt a pull operation "
           "first, and if the WBEM server does not support it, will use a "
           "traditional operation from then on, on this connection'")


def plan(tier):
    if tier == 'quick':
        return dict(cases=2500, time_s=60, case_cpu_s=30)
    return dict(cases=120000, time_s=420, case_cpu_s=60)


def setup_worker(ctx):
    warnings.simplefilter('ignore')
    ctx.state['reach'] = Reach(REACH).start()
    ctx.state['unraisable'] = []

    def hook(unraisable):
        # exceptions raised while a dropped generator is finalised
        ctx.state['unraisable'].append(unraisable.exc_value)
    sys.unraisablehook = hook


def finish_worker(ctx):
    ctx.state['reach'].flush(ctx)
    ctx.state['reach'].stop()
    sys.unraisablehook = sys.__unraisablehook__


# ------------------------------------------------------------- request tap ---

class Tap:
    """Sits between the client half and the server half of a
    FakedWBEMConnection (the _imethodcall seam): records the server operations
    requested and can disturb the j-th one."""

    def __init__(self, srv, conn):
        self.srv = srv
        self.conn = conn
        self.orig = conn._imethodcall     # pylint: disable=protected-access
        self.ops = []
        self.fail_pull_at = None          # j-th Pull... request fails
        self.toggle_at = None             # flip disable before the j-th op
        self.pulls = 0
        self.fired = None
        conn._imethodcall = self          # pylint: disable=protected-access

    def reset(self):
        self.ops = []
        self.pulls = 0
        self.fail_pull_at = None
        self.toggle_at = None
        self.fired = None

    def __call__(self, methodname, namespace, *args, **kwargs):
        self.ops.append(methodname)
        if self.toggle_at is not None and len(self.ops) == self.toggle_at:
            self.srv.set_pull_disabled(
                not self.srv.conn.disable_pull_operations)
            self.fired = 'toggle@%s' % methodname
        if methodname.startswith('Pull'):
            self.pulls += 1
            if self.fail_pull_at is not None and \
                    self.pulls == self.fail_pull_at:
                self.fired = 'fail@%s' % methodname
                raise CIMError(pywbem.CIM_ERR_FAILED,
                               'injected server failure')
        return self.orig(methodname, namespace, *args, **kwargs)

    def path(self):
        if any(o.startswith('Pull') for o in self.ops):
            return 'pull'
        opens = [o for o in self.ops if o.startswith('Open')]
        trads = [o for o in self.ops if not o.startswith(('Open', 'Pull',
                                                          'Close'))]
        if trads:
            return 'fallback'
        if opens:
            return 'pull'
        return 'none'


# ------------------------------------------------------------- generators ---

def gen_call(rng, srv, prev_ops):
    rec = srv.recipe
    if prev_ops and rng.random() < 0.6:
        op = rng.choice(prev_ops)
    else:
        op = rng.choices(list(OPS), [5, 5, 3, 3, 3, 3, 1])[0]
    ns = rng.choice(rec['namespaces'])
    args, targs = {}, {}
    bad = None
    if rng.random() < 0.08:
        bad = rng.choice(['class', 'namespace'])
    if op.startswith('IterEnumerate'):
        cls = rng.choice(['PG_Base'] * 7 + ['PG_Sub1', 'PG_Sub1', 'PG_Sub2',
                                            'PG_Empty', 'PG_Hub', 'PG_Link'])
        if bad == 'class':
            cls = 'PG_NoSuchClass'
        if bad == 'namespace':
            ns = 'root/nosuch'
        if rng.random() < 0.15:
            cls = cls.lower()
        args = {'ClassName': cls, 'namespace': ns}
        if rng.random() < 0.15 and bad is None:
            # namespace through a CIMClassName / default namespace
            if ns == DEFAULT_NS and rng.random() < 0.5:
                args = {'ClassName': cls}
            else:
                args = {'ClassName': pywbem.CIMClassName(cls, namespace=ns)}
        targs = dict(args)
        if op == 'IterEnumerateInstances':
            for k, vals in (('DeepInheritance', [None, None, True, False]),
                            ('IncludeClassOrigin', [None, None, True]),
                            ('PropertyList', [None, None, None, ['id'],
                                              ['n', 'tag'], []])):
                v = rng.choice(vals)
                if v is not None:
                    args[k] = v
                    targs[k] = v
    elif op != 'IterQueryInstances':
        real_ns = ns
        hubs = srv.hub_paths.get(real_ns, [])
        items = srv.item_paths.get(real_ns, [])
        r = rng.random()
        if r < 0.85 and hubs:
            if rng.random() < 0.6:
                nlinks = [len(h['links']) + len(h['ties'])
                          for h in rec['ns'][real_ns]['hubs']]
                src = hubs[nlinks.index(max(nlinks))].copy()
            else:
                src = rng.choice(hubs).copy()
        elif items:
            src = rng.choice(items).copy()
        else:
            src = CIMInstanceName('PG_Hub', {'id': 'no-such-hub'},
                                  namespace=real_ns)
        if bad == 'namespace':
            src.namespace = ns = 'root/nosuch'
        elif bad == 'class':
            src = CIMInstanceName('PG_NoSuchClass', {'id': 'x'}, namespace=ns)
        args = {'InstanceName': src}
        if op.startswith('IterAssociator'):
            v = rng.choice([None] * 6 + ['PG_Link', 'PG_Link', 'PG_Tie'])
            if v:
                args['AssocClass'] = v
            v = rng.choice([None] * 8 + ['PG_Base', 'PG_Sub1', 'PG_Sub2'])
            if v:
                args['ResultClass'] = v
            v = rng.choice([None] * 10 + ['item', 'right', 'hub'])
            if v:
                args['ResultRole'] = v
        else:
            v = rng.choice([None] * 6 + ['PG_Link', 'PG_Link', 'PG_Tie'])
            if v:
                args['ResultClass'] = v
        v = rng.choice([None] * 10 + ['hub', 'left', 'item'])
        if v:
            args['Role'] = v
        targs = dict(args)
        targs['ObjectName'] = targs.pop('InstanceName').copy()
        if op.endswith('Instances'):
            for k, vals in (('IncludeClassOrigin', [None, None, True]),
                            ('PropertyList', [None, None, None, ['w'], []])):
                v = rng.choice(vals)
                if v is not None:
                    args[k] = v
                    targs[k] = v
    else:
        lang = rng.choice(['DMTF:FQL', 'WQL', 'DMTF:CQL'])
        q = 'SELECT * FROM PG_Base'
        args = {'FilterQueryLanguage': lang, 'FilterQuery': q,
                'namespace': ns}
        targs = {'QueryLanguage': lang, 'Query': q, 'namespace': ns}
        if rng.random() < 0.3:
            args['ReturnQueryResultClass'] = rng.random() < 0.7
    spec = dict(op=op, ns=ns, args=args, trad_args=targs, bad=bad,
                filter=None, coe=None)
    if op != 'IterQueryInstances':
        r = rng.random()
        if r < 0.22:
            spec['filter'] = 'both'
            args['FilterQueryLanguage'] = 'DMTF:FQL'
            args['FilterQuery'] = rng.choice(['n > 1', "tag = 't1'", 'n <> 0'])
        elif r < 0.26:
            spec['filter'] = 'language-only'
            args['FilterQueryLanguage'] = 'DMTF:FQL'
    r = rng.random()
    if r < 0.12:
        spec['coe'] = args['ContinueOnError'] = True
    elif r < 0.16:
        spec['coe'] = args['ContinueOnError'] = False
    if rng.random() < 0.1:
        args['OperationTimeout'] = rng.choice([0, 1, 30, 40])
    return spec


def gen_moc(rng, size, small=False):
    r = rng.random()
    if small and r < 0.75:
        return rng.choice([1, 1, 2, 2, 3, max(1, size // 3)])
    if r < 0.08:
        return rng.choice([0, -1, None, '5', 2.5, -2 ** 31])
    if r < 0.10:
        return 'default'
    if r < 0.35:
        return 1
    if r < 0.5:
        return 2
    if r < 0.75:
        return rng.randint(1, max(1, size + 1))
    if r < 0.92:
        return max(1, size + rng.choice([-1, 0, 1]))
    return rng.choice([100, 1000, 2 ** 32 - 1])


def moc_valid(moc):
    return moc == 'default' or (isinstance(moc, int) and moc > 0)


def gen_consumption(rng, size):
    r = rng.random()
    if r < 0.46:
        return ('exhaust', None)
    if r < 0.62:
        return ('close', rng.choice([0, 1, 1, 2, size // 2, max(0, size - 1),
                                     size + 1]))
    if r < 0.76:
        return ('drop', rng.choice([1, 1, 2, max(1, size // 2),
                                    max(1, size - 1), size + 1]))
    if r < 0.88:
        return ('fail', rng.choice([1, 1, 1, 2, 3]))
    return ('toggle', rng.choice([2, 2, 2, 3, 4]))


# ------------------------------------------------------ documented outcome ---

def expected_outcomes(spec, moc, intent, disabled, ref):
    """Set of outcome classes the documentation allows for this call on a
    connection that has learned nothing yet.  Outcome classes: 'ok',
    'TypeError', 'ValueError', ('CIMError', code) and ('CIMError', None) for
    any CIM error."""
    if not moc_valid(moc):
        if moc is None or isinstance(moc, int):
            return {'ValueError'}
        return {'TypeError'}
    op = spec['op']
    ref_out = 'ok' if not isinstance(ref, CIMError) else \
        ('CIMError', ref.status_code)
    if intent is True:
        route = 'not-supported' if disabled else 'pull'
    elif intent is False:
        route = 'fallback'
    else:
        route = 'fallback' if disabled else 'pull'
    if op == 'IterQueryInstances':
        out = {('CIMError', None)}
        if intent is not True and (
                spec['args'].get('ReturnQueryResultClass') is not None or
                spec['coe'] is not None):
            out.add('ValueError')
        return out
    if route == 'not-supported':
        return {('CIMError', NOT_SUPPORTED)}
    if route == 'pull':
        return {ref_out}
    if spec['filter']:
        return {'ValueError'}
    if spec['coe'] is True:
        return {'ValueError'}
    if spec['coe'] is False:
        return {'ValueError', ref_out}
    return {ref_out}


def outcome_class(exc):
    if exc is None:
        return 'ok'
    if isinstance(exc, CIMError):
        return ('CIMError', exc.status_code)
    return type(exc).__name__


def allowed(out, exp):
    if out in exp:
        return True
    return isinstance(out, tuple) and ('CIMError', None) in exp


def show(out):
    if isinstance(out, tuple):
        if out[1] is None:
            return 'CIMError'
        return 'CIMError(%s)' % CIMError(out[1]).status_code_name
    return str(out)


# -------------------------------------------------------------- execution ---

def run_iter(conn, spec, moc, mode, k):
    """Call the Iter operation and consume it.  Returns (objects, exception,
    exhausted).  Only this frame ever references the generator."""
    kwargs = dict(spec['args'])
    if moc != 'default':
        kwargs['MaxObjectCount'] = moc
    got = []
    exc = None
    exhausted = False
    it = None
    try:
        res = getattr(conn, spec['op'])(**kwargs)
        it = res.generator if spec['op'] == 'IterQueryInstances' else res
        if mode in ('close', 'drop'):
            n = 0
            while n < k:
                try:
                    got.append(next(it))
                except StopIteration:
                    exhausted = True
                    break
                n += 1
            if not exhausted:
                if mode == 'close':
                    it.close()
                else:
                    it = None
                    res = None
                    gc.collect()
        else:
            for o in it:
                got.append(o)
            exhausted = True
    except CaseTimeout:
        raise
    except Exception as e:  # pylint: disable=broad-except
        exc = e
    it = None
    res = None
    return got, exc, exhausted


class Sequence:
    def __init__(self, ctx, rng):
        self.ctx = ctx
        self.rng = rng
        self.recipe = pullgen.gen_recipe(rng, second_ns=0.2, big=0.02)
        self.intent = rng.choice([None, None, None, True, False])
        self.disabled = rng.random() < 0.4
        self.srv = pullgen.Server(self.recipe,
                                  use_pull_operations=self.intent,
                                  disable_pull=self.disabled)
        self.conn = self.srv.conn
        self.tap = Tap(self.srv, self.conn)
        self.log = []
        self.prev = []               # (op, disabled) of earlier calls
        # what the shared connection can have learned, from the harness view
        self.saw_disabled = Counter()   # op -> calls made while pull disabled
        self.saw_enabled = Counter()    # op -> calls made while pull enabled

    def detail(self, extra=None):
        d = {'use_pull_operations': self.intent,
             'sizes': {ns: len(v['items'])
                       for ns, v in self.recipe['ns'].items()},
             'sequence': self.log[-12:]}
        if extra:
            d.update(extra)
        return d

    def viol(self, key, what, extra=None):
        self.ctx.violation(key, what, self.detail(extra))

    def set_disabled(self, flag):
        self.disabled = flag
        self.srv.set_pull_disabled(flag)

    def purge(self):
        """Close whatever is left in the context table (after situations in
        which the client legitimately could not)."""
        table = self.srv.table()
        if not table:
            return 0
        n = len(table)
        was = self.srv.conn.disable_pull_operations
        self.srv.set_pull_disabled(False)
        helper = self.conn.copy()
        for cid, entry in list(table.items()):
            try:
                helper.CloseEnumeration((cid, entry['namespace']))
            except pywbem.Error:
                table.pop(cid, None)
        self.srv.set_pull_disabled(was)
        return n

    # -- comparison with the traditional result ------------------------------
    def compare(self, who, spec, got, ref, complete, path, desc):
        ctx = self.ctx
        op = spec['op']
        if op == 'IterQueryInstances':
            return
        ref_fps = Counter(fp(o, ignore_host=True) for o in ref)
        got_fps = Counter(fp(o, ignore_host=True) for o in got)
        ctx.count('checked:equal-to-traditional')
        trad = OPS[op][0]
        extra = got_fps - ref_fps
        if extra:
            dup = [f for f in extra if ref_fps[f] > 0]
            key = 'iter.%s.object-yielded-twice' % path if dup else \
                'iter.%s.object-not-in-traditional-result' % path
            self.viol(key,
                      '%s (%s connection, %s path) yielded %d object(s) %s '
                      '%s; e.g. %s' % (
                          op, who, path, sum(extra.values()),
                          'more often than' if dup else 'that are not in',
                          trad, short(next(iter(extra)), 300)), desc)
        missing = ref_fps - got_fps
        if complete and missing and not spec['filter']:
            self.viol('iter.%s.objects-missing' % path,
                      '%s (%s connection, %s path) was exhausted after %d '
                      'objects but %s returns %d; missing e.g. %s' % (
                          op, who, path, len(got), trad, len(ref),
                          short(next(iter(missing)), 300)), desc)
        # paths: namespace always, host on the Enumerate fallback
        want_ns = spec['ns'].lower()
        for o in got:
            p = o.path if isinstance(o, CIMInstance) else o
            if p is None or p.namespace is None or \
                    p.namespace.lower() != want_ns:
                self.viol('iter.%s.path-without-namespace' % path,
                          '%s (%s path) yielded an object whose path does not '
                          'name the namespace %r: %r' % (op, path, spec['ns'],
                                                         p), desc)
                break
        if path == 'fallback' and OPS[op][2] and got:
            ctx.count('checked:fallback-host')
            for o in got:
                p = o.path if isinstance(o, CIMInstance) else o
                if p is None or p.host != self.conn.host:
                    self.viol('iter.fallback.path-without-host',
                              '%s through %s yielded a path with host=%r '
                              '(connection host %r)' % (
                                  op, trad, getattr(p, 'host', None),
                                  self.conn.host), desc)
                    break

    # -- one call of the sequence --------------------------------------------
    def call(self, pos):
        rng, ctx, srv = self.rng, self.ctx, self.srv
        if rng.random() < 0.3:
            self.set_disabled(not self.disabled)
            self.log.append('server: disable_pull_operations=%r' %
                            self.disabled)
        spec = gen_call(rng, srv, [p[0] for p in self.prev])
        op = spec['op']
        trad = OPS[op][0]
        left = self.purge()
        if left:
            self.viol('iter.context-left-open',
                      '%d enumeration context(s) in the server table before '
                      'call %d' % (left, pos))
        # (1) the traditional operation, on its own connection
        ref_conn = self.conn.copy()
        try:
            ref = getattr(ref_conn, trad)(**spec['trad_args'])
        except CIMError as exc:
            ref = exc
        except CaseTimeout:
            raise
        except Exception as exc:  # pylint: disable=broad-except
            ctx.outcome('traditional-raised-' + type(exc).__name__)
            return
        size = 0 if isinstance(ref, CIMError) else len(ref)
        mode, k = gen_consumption(rng, size)
        moc = gen_moc(rng, size, small=mode != 'exhaust')
        if not moc_valid(moc):
            mode, k = 'exhaust', None
        disabled0 = self.disabled
        exp = expected_outcomes(spec, moc, self.intent, disabled0, ref)
        desc = {'call': {'op': op, 'args': short(spec['args'], 300),
                         'MaxObjectCount': moc, 'consumption': [mode, k],
                         'server_pull_disabled': disabled0,
                         'traditional_result': size if not isinstance(
                             ref, CIMError) else ref.status_code_name,
                         'documented_outcomes': sorted(show(e) for e in exp)}}
        self.log.append('%s(%s) MaxObjectCount=%r pull_disabled=%r %s' % (
            op, short(spec['args'], 160), moc, disabled0, mode))
        ctx.evaluated()
        ctx.cls('op/' + op)
        ctx.cls('intent/%r/server-%s' % (self.intent, 'disabled' if disabled0
                                          else 'enabled'))
        ctx.cls('consume/' + mode)
        ctx.cls('size/' + ('error' if isinstance(ref, CIMError) else
                           '0' if size == 0 else '1-2' if size < 3 else
                           '3-10' if size <= 10 else '>10'))
        ctx.cls('moc/' + ('invalid' if not moc_valid(moc) else
                          'default' if moc == 'default' else
                          '>=size' if moc >= size else '<size'))
        ref_list = [] if isinstance(ref, CIMError) else ref

        # (2) fresh connection, same server state, exhaustive
        fresh = self.conn.copy()
        ftap = Tap(srv, fresh)
        f_got, f_exc, _ = run_iter(fresh, spec, moc, 'exhaust', None)
        f_out = outcome_class(f_exc)
        f_path = ftap.path()
        if not allowed(f_out, exp):
            self.viol('iter.fresh.outcome.%s-instead-of-%s' % (
                show(f_out), '|'.join(sorted(show(e) for e in exp))),
                '%s on a fresh connection (use_pull_operations=%r, server '
                'pull %s) ended with %s: %s; documented: %s' % (
                    op, self.intent, 'disabled' if disabled0 else 'enabled',
                    show(f_out), short(str(f_exc), 200),
                    sorted(show(e) for e in exp)), desc)
        if f_exc is None:
            self.compare('fresh', spec, f_got, ref_list, True, f_path, desc)
        n = self.purge()
        if n:
            self.viol('iter.%s.context-left-open.after-exhaust' % f_path,
                      '%s on a fresh connection left %d enumeration '
                      'context(s) open after %s' % (
                          op, n, 'raising ' + show(f_out) if f_exc else
                          'being exhausted'), desc)

        # (3) the shared connection with the consumption pattern
        tap = self.tap
        tap.reset()
        if mode == 'fail':
            tap.fail_pull_at = k
        elif mode == 'toggle':
            tap.toggle_at = k
        del ctx.state['unraisable'][:]
        s_got, s_exc, exhausted = run_iter(
            self.conn, spec, moc, mode if mode in ('close', 'drop') else
            'exhaust', k)
        s_out = outcome_class(s_exc)
        s_path = tap.path()
        fired = tap.fired
        unraisable = list(ctx.state['unraisable'])
        self.disabled = bool(srv.conn.disable_pull_operations)
        if s_path in ('pull', 'fallback'):
            ctx.count('path:' + s_path)
        ctx.outcome('%s/%s' % (s_path, show(s_out)))
        if len(tap.ops) >= 2:
            ctx.nontrivial(h64((op, self.intent, disabled0, moc, size,
                                spec['filter'], spec['coe'], mode, k,
                                tuple(self.prev))))
        desc['shared'] = {'server_requests': tap.ops[:12],
                          'yielded': len(s_got), 'outcome': show(s_out),
                          'error': short(str(s_exc), 200) if s_exc else None,
                          'disturbance': fired}

        if fired and fired.startswith('fail'):
            # the injected failure must reach the consumer, what was yielded
            # before must be right, and the enumeration must be closed
            ctx.count('checked:injected-pull-error')
            if s_out != ('CIMError', pywbem.CIM_ERR_FAILED):
                self.viol('iter.injected-pull-error.not-propagated',
                          '%s: the %d. Pull request failed with CIM_ERR_FAILED '
                          'but the iterator ended with %s' % (
                              op, k, show(s_out)), desc)
            self.compare('shared', spec, s_got, ref_list, False, s_path, desc)
            self.cleanup_check(op, s_path, 'after-server-error', desc)
        elif fired and fired.startswith('toggle'):
            # server capability changed during the call: only what was
            # yielded is checked; clean-up may be impossible
            ctx.count('checked:toggled-mid-iteration')
            if s_exc is not None and not isinstance(
                    s_exc, (CIMError, ValueError)):
                ctx.unexpected(s_exc, op + ' with the server toggling pull '
                               'support during the call', desc,
                               prefix='iter.toggle:')
            self.compare('shared', spec, s_got, ref_list,
                         s_exc is None and exhausted, s_path, desc)
            self.purge()
        else:
            ctx.count('checked:fresh-vs-shared')
            if mode == 'close' and k == 0 and s_exc is None:
                # the generator was closed before it ran: nothing to judge
                ctx.outcome('closed-before-first-next')
            elif self.intent is None and s_exc is not None and \
                    f_exc is not None and not allowed(s_out, exp):
                # fails on the fresh connection as well, only differently
                # (learned state): outside "fresh succeeds, shared fails"
                ctx.outcome('fails-on-fresh-and-shared-differently')
            elif not allowed(s_out, exp):
                self.classify(spec, moc, disabled0, s_out, s_exc, f_out, exp,
                              desc)
            if s_exc is None:
                self.compare('shared', spec, s_got, ref_list, exhausted,
                             s_path, desc)
            how = {'close': 'after-close',
                   'drop': 'after-gc'}.get(mode, 'after-exhaust')
            if s_exc is not None:
                how = 'after-error'
            if exhausted and s_exc is None:
                how = 'after-exhaust'
            self.cleanup_check(op, s_path, how, desc)
        if unraisable and not (fired and fired.startswith('toggle')):
            self.viol('iter.finalizer-raised',
                      '%s: finalising the abandoned iterator raised %s' % (
                          op, short(repr(unraisable[0]), 200)), desc)
        # what the shared connection may have learned
        if moc_valid(moc) and tap.ops:
            if disabled0:
                # an Open... request of this kind was refused (or would be)
                self.saw_disabled[op] += 1
            elif tap.ops[0].startswith('Open') and (
                    s_got or s_exc is None or (fired or '').startswith(
                        'toggle')):
                # an Open... request of this kind was answered
                self.saw_enabled[op] += 1
        self.prev.append((op, disabled0))
        if len(ctx.samples) < 5 and len(tap.ops) >= 3 and pos > 0:
            ctx.sample({'use_pull_operations': self.intent,
                        'sequence': self.log[-4:],
                        'last_call': desc['call'], 'shared': desc['shared'],
                        'fresh': {'outcome': show(f_out), 'path': f_path,
                                  'yielded': len(f_got)}})

    def cleanup_check(self, op, path, how, desc):
        self.ctx.count('checked:cleanup')
        if self.srv.conn.disable_pull_operations:
            self.purge()
            return
        n = self.purge()
        if n:
            self.viol('iter.%s.context-left-open.%s' % (path, how),
                      '%s left %d enumeration context(s) open on the server '
                      '(%s)' % (op, n, how), desc)

    def classify(self, spec, moc, disabled0, s_out, s_exc, f_out, exp, desc):
        """The shared connection ended outside the documented outcomes."""
        op = spec['op']
        fresh_ok = allowed(f_out, exp)
        doc = sorted(show(e) for e in exp)
        if self.intent is None and fresh_ok and not disabled0 and \
                s_out == 'ValueError' and not desc['shared']['yielded'] and \
                (spec['filter'] or spec['coe'] is not None):
            arg = 'filterquery' if spec['filter'] else 'continueonerror'
            if self.saw_disabled[op]:
                self.viol(
                    'iter.sticky-false.%s-after-server-enables-pull' % arg,
                    '%s with %s on a connection with use_pull_operations=None '
                    'raised ValueError (%s) although the server supports pull '
                    'now and a fresh connection gives %s; the connection fell '
                    'back to %s once while the server had pull disabled and '
                    'never tries pull again (%s)' % (
                        op, 'FilterQuery' if spec['filter'] else
                        'ContinueOnError', short(str(s_exc), 80), show(f_out),
                        OPS[op][0], DOC_REF), desc)
            else:
                self.viol(
                    'iter.learned-no-pull.without-not-supported.%s' % arg,
                    '%s raised ValueError (%s): the connection uses the '
                    'traditional fallback although this server never refused '
                    'a pull operation of this kind' % (
                        op, short(str(s_exc), 80)), desc)
            return
        if self.intent is None and fresh_ok and disabled0 and \
                s_out == ('CIMError', NOT_SUPPORTED):
            if self.saw_enabled[op]:
                self.viol(
                    'iter.sticky-true.not-supported-after-server-disables-pull',
                    '%s on a connection with use_pull_operations=None raised '
                    'CIM_ERR_NOT_SUPPORTED although a fresh connection falls '
                    'back to %s and gives %s; the connection used pull '
                    'successfully once and never falls back again (%s)' % (
                        op, OPS[op][0], show(f_out), DOC_REF), desc)
            else:
                self.viol(
                    'iter.no-fallback.on-not-supported',
                    '%s with use_pull_operations=None raised '
                    'CIM_ERR_NOT_SUPPORTED instead of falling back to %s' % (
                        op, OPS[op][0]), desc)
            return
        self.viol('iter.shared.outcome.%s-instead-of-%s' % (
            show(s_out), '|'.join(doc)),
            '%s on the shared connection (use_pull_operations=%r, server pull '
            '%s, MaxObjectCount=%r) ended with %s: %s; documented: %s; fresh '
            'connection: %s' % (
                op, self.intent, 'disabled' if disabled0 else 'enabled', moc,
                show(s_out), short(str(s_exc), 200), doc, show(f_out)), desc)

    def run(self):
        n = self.rng.choice([1, 2, 3, 3, 4, 5, 6])
        for pos in range(n):
            self.call(pos)
        self.ctx.cls('sequence-length/%d' % n)


def run_case(ctx, i, rng):
    Sequence(ctx, rng).run()
    ctx.count('sequences')
