"""Runtime-monitoring framework for the pywbem properties C01..C20.

See /verif/DESIGN.md.  Everything here runs the real code of the repository
working tree (VERIF_REPO, default /repo) and observes it from outside.
"""
import os
import sys

VERIF_DIR = os.path.dirname(os.path.dirname(os.path.abspath(__file__)))
REPO_DIR = os.path.abspath(os.environ.get('VERIF_REPO', '/repo'))


def setup_path():
    """Make `import pywbem` resolve to the working tree under test."""
    if sys.path[0] != REPO_DIR:
        sys.path.insert(0, REPO_DIR)
    deps = os.path.join(VERIF_DIR, '.deps')
    if os.path.isdir(deps) and deps not in sys.path:
        sys.path.append(deps)
    tests_utils = os.path.join(REPO_DIR)
    import pywbem
    import pywbem_mock
    for mod in (pywbem, pywbem_mock):
        f = os.path.abspath(mod.__file__)
        if not f.startswith(REPO_DIR + os.sep):
            raise RuntimeError(
                "%s imported from %s, not from %s" % (mod.__name__, f, REPO_DIR))
    return tests_utils
