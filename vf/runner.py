"""Runner: tiers, seeds, worker processes, watchdogs, verdicts, evidence, replay,
known-findings matching.

A property module (vf/props/cNN.py) provides

    META = dict(id=..., level=..., rule=..., assumptions=[...],
                min_eval=..., min_distinct=..., required_events=[...], ...)
    plan(tier)            -> dict(cases=N, time_s=T [, workers=W, case_cpu_s=S])
    run_case(ctx, i, rng) -> None   (executes case number i, reports via ctx)
    optional: prepare(), setup_worker(ctx), finish_worker(ctx)

Case i is generated from random.Random("<seed>/<i>") only, so a case can be
replayed alone, independent of the number of workers.
"""
import hashlib
import importlib
import json
import os
import random
import signal
import subprocess
import sys
import time
import traceback
from collections import Counter

from . import VERIF_DIR, REPO_DIR, setup_path

MAX_VIOL_PER_KEY = 3     # witnesses kept per key and worker
MAX_SAMPLES = 5


class CaseTimeout(BaseException):
    """CPU-time budget of one case exhausted (non-termination oracle)."""


def h64(obj):
    """Stable 64-bit hash of a (nested) python value's repr."""
    if not isinstance(obj, (bytes, bytearray)):
        obj = repr(obj).encode('utf-8', 'backslashreplace')
    return int.from_bytes(hashlib.blake2b(obj, digest_size=8).digest(), 'big')


def short(obj, n=400):
    s = obj if isinstance(obj, str) else repr(obj)
    return s if len(s) <= n else s[:n] + '...<%d more>' % (len(s) - n)


def repo_frame(tb_or_exc):
    """(function name, source line text, file basename) of the innermost
    traceback frame that lies inside the repository under test, or None."""
    tb = tb_or_exc.__traceback__ if isinstance(tb_or_exc, BaseException) \
        else tb_or_exc
    found = None
    for fs in traceback.extract_tb(tb):
        fn = os.path.abspath(fs.filename)
        if fn.startswith(REPO_DIR + os.sep) and '/tests/' not in fn:
            found = (fs.name, (fs.line or '').strip(), os.path.basename(fn))
    return found


def exc_key(exc):
    """Mechanism key of an unexpected exception: type + innermost repo frame
    function + text of the raising line."""
    fr = repo_frame(exc)
    if type(exc).__module__.startswith('pywbem'):
        # a pywbem error class: the raising helper (check_node, ...) is shared
        # by many causes, so the stem of the message is the mechanism
        import re
        msg = re.sub(r'\s+', ' ', str(exc))[:70]
        msg = re.sub(r'dict_keys\((.*?)\).*', r'\1', msg)
        msg = re.sub(r'[-+]?\d[\d.+\-eE]*', '#', msg)   # values are not
        # part of a mechanism
        return 'exc=%s:%s' % (type(exc).__name__, msg.strip())
    if fr is None:
        return 'exc=%s@<outside-repo>' % type(exc).__name__
    return 'exc=%s@%s.%s:%s' % (type(exc).__name__, fr[2][:-3], fr[0],
                                fr[1][:80])


class Ctx:
    """Per-worker recording context handed to run_case()."""

    def __init__(self, prop_id, tier, seed, shard=0, nshards=1, replay=False):
        self.prop_id = prop_id
        self.tier = tier
        self.seed = seed
        self.shard = shard
        self.nshards = nshards
        self.replay = replay
        self.evaluations = 0
        self.distinct = set()
        self.samples = []
        self.events = Counter()
        self.classes = Counter()
        self.outcomes = Counter()
        self.violations = []
        self.viol_counts = Counter()
        self.harness_errors = []
        self.extra = {}
        self.case_index = None
        self.state = {}          # free for the property module

    # -- recording -------------------------------------------------------
    def evaluated(self, n=1):
        self.evaluations += n

    def nontrivial(self, fp):
        """Register one distinct non-trivial case by its fingerprint."""
        self.distinct.add(fp if isinstance(fp, int) else h64(fp))

    def sample(self, obj, force=False):
        if len(self.samples) < MAX_SAMPLES or force:
            self.samples.append(obj if isinstance(obj, (dict, list)) else
                                short(obj, 600))

    def count(self, name, n=1):
        self.events[name] += n

    def cls(self, name, n=1):
        self.classes[name] += n

    def outcome(self, name, n=1):
        self.outcomes[name] += n

    def violation(self, key, what, detail=None):
        """Report a violation of the property.  `key` is the mechanism."""
        self.viol_counts[key] += 1
        if self.viol_counts[key] <= MAX_VIOL_PER_KEY:
            self.violations.append({
                'key': key, 'what': short(what, 1500),
                'case': self.case_index, 'seed': self.seed,
                'detail': detail if isinstance(detail, (dict, list))
                else short(detail, 4000) if detail is not None else None})

    def unexpected(self, exc, what='', detail=None, prefix=''):
        """Report an exception that the property forbids."""
        key = prefix + exc_key(exc)
        tb = ''.join(traceback.format_exception(type(exc), exc,
                                                exc.__traceback__)[-6:])
        self.violation(key, '%s: %s: %s' % (what, type(exc).__name__,
                                            short(str(exc), 300)),
                       {'case': detail, 'traceback': tb[-3000:]})
        return key

    def result(self):
        return {
            'evaluations': self.evaluations,
            'distinct': sorted(self.distinct),
            'samples': self.samples,
            'events': dict(self.events),
            'classes': dict(self.classes),
            'outcomes': dict(self.outcomes),
            'violations': self.violations,
            'viol_counts': dict(self.viol_counts),
            'harness_errors': self.harness_errors[:5],
            'n_harness_errors': len(self.harness_errors),
            'extra': self.extra,
        }


def case_rng(seed, i):
    return random.Random('%s/%s' % (seed, i))


def load_prop(prop_id):
    setup_path()
    name = prop_id.lower()
    for fn in sorted(os.listdir(os.path.join(VERIF_DIR, 'vf', 'props'))):
        if fn.startswith(name) and fn.endswith('.py'):
            return importlib.import_module('vf.props.' + fn[:-3])
    raise SystemExit('no check module for %s' % prop_id)


def _alarm(signum, frame):
    raise CaseTimeout()


def run_one_case(mod, ctx, i, cpu_s):
    """Run case i under the CPU-time watchdog; classify escaped exceptions."""
    ctx.case_index = i
    rng = case_rng(ctx.seed, i)
    use_timer = cpu_s and not mod.META.get('threads')
    if use_timer:
        signal.setitimer(signal.ITIMER_VIRTUAL, cpu_s)
    try:
        mod.run_case(ctx, i, rng)
    except CaseTimeout:
        signal.setitimer(signal.ITIMER_VIRTUAL, 0)
        fr = traceback.extract_stack()
        ctx.violation('nontermination.cpu-budget',
                      'case exceeded %.0f s CPU' % cpu_s, {'case': i})
    except Exception as exc:  # pylint: disable=broad-except
        signal.setitimer(signal.ITIMER_VIRTUAL, 0)
        tb = traceback.format_exc()
        if repo_frame(exc) is not None and \
                not mod.META.get('escaped_is_harness_error'):
            # an exception raised inside pywbem escaped through a harness call
            # site that does not expect one
            ctx.unexpected(exc, 'escaped the harness', {'case': i},
                           prefix='escaped:')
        else:
            ctx.harness_errors.append({'case': i, 'traceback': tb[-3000:]})
    finally:
        if use_timer:
            signal.setitimer(signal.ITIMER_VIRTUAL, 0)


def worker_main(argv):
    """Entry point of one worker process."""
    args = json.loads(argv[0])
    mod = load_prop(args['prop'])
    ctx = Ctx(args['prop'], args['tier'], args['seed'], args['shard'],
              args['nshards'])
    signal.signal(signal.SIGVTALRM, _alarm)
    try:
        import faulthandler
        faulthandler.enable()
    except Exception:  # pylint: disable=broad-except
        pass
    plan = args['plan']
    deadline = time.monotonic() + plan['time_s']
    cpu_s = plan.get('case_cpu_s', 60)
    if hasattr(mod, 'setup_worker'):
        mod.setup_worker(ctx)
    i = args['shard']
    done = 0
    while i < plan['cases']:
        if time.monotonic() > deadline:
            ctx.extra['stopped_at_time_cap'] = True
            break
        run_one_case(mod, ctx, i, cpu_s)
        done += 1
        i += args['nshards']
    ctx.extra['cases_run'] = done
    if hasattr(mod, 'finish_worker'):
        mod.finish_worker(ctx)
    with open(args['out'], 'w', encoding='utf-8') as f:
        json.dump(ctx.result(), f)
    return 0


def load_known():
    """known_findings.json plus known_findings.d/*.json (one file per
    property); all committed, never written at run time."""
    out = []
    paths = [os.path.join(VERIF_DIR, 'known_findings.json')]
    d = os.path.join(VERIF_DIR, 'known_findings.d')
    if os.path.isdir(d):
        paths += [os.path.join(d, fn) for fn in sorted(os.listdir(d))
                  if fn.endswith('.json')]
    for path in paths:
        if os.path.exists(path):
            with open(path, encoding='utf-8') as f:
                out.extend(json.load(f).get('findings', []))
    return out


def match_known(known, prop_id, key):
    import fnmatch
    for k in known:
        if k.get('property') == prop_id and k.get('status') == 'open' and \
                (k['key'] == key or fnmatch.fnmatchcase(key, k['key'])):
            return k
    return None


def write_evidence(mod, tier, seed, merged, wall, inconclusive, n_viol,
                   known_hit):
    meta = mod.META
    cov = {
        'evaluations': merged['evaluations'],
        'distinct_nontrivial': len(merged['distinct']),
        'rule': meta['rule'],
        'samples': merged['samples'][:MAX_SAMPLES],
        'events': merged['events'],
        'generator_classes': merged['classes'],
        'outcomes': merged['outcomes'],
        'known_findings_hit': known_hit,
        'workers': merged['workers'],
        'cases_planned': merged['cases_planned'],
        'cases_run': merged['cases_run'],
        'stopped_at_time_cap': merged['time_cap'],
        'repo': REPO_DIR,
    }
    cov.update(merged['extra'])
    if inconclusive:
        cov['inconclusive'] = inconclusive
    ev = {
        'property_id': meta['id'], 'tier': tier, 'seed': seed,
        'level': meta['level'], 'coverage': cov,
        'assumptions': meta.get('assumptions', []),
        'wall_s': round(wall, 2), 'violations': n_viol,
    }
    evdir = os.path.join(VERIF_DIR, 'evidence')
    if REPO_DIR != '/repo':
        # a run against a scratch copy (mutant / seeded change) must not
        # overwrite the evidence of the real tree
        evdir = os.path.join(VERIF_DIR, 'work', 'scratch-evidence')
    os.makedirs(evdir, exist_ok=True)
    path = os.path.join(evdir, meta['id'] + '.json')
    with open(path, 'w', encoding='utf-8') as f:
        json.dump(ev, f, indent=1, sort_keys=True, default=str)
        f.write('\n')
    return path


def merge_extra(dst, src):
    for k, v in src.items():
        if isinstance(v, bool):
            dst[k] = dst.get(k, False) or v
        elif isinstance(v, (int, float)):
            dst[k] = dst.get(k, 0) + v
        elif isinstance(v, list):
            dst.setdefault(k, [])
            for x in v:
                if x not in dst[k] and len(dst[k]) < 200:
                    dst[k].append(x)
        elif isinstance(v, dict):
            d = dst.setdefault(k, {})
            for kk, vv in v.items():
                if isinstance(vv, (int, float)) and not isinstance(vv, bool):
                    d[kk] = d.get(kk, 0) + vv
                else:
                    d[kk] = vv
        else:
            dst[k] = v


def main_check(prop_id, tier, seed, cases=None, time_s=None, workers=None):
    """Parent process: run the check of one property, print the verdict."""
    t0 = time.monotonic()
    mod = load_prop(prop_id)
    meta = mod.META
    plan = dict(mod.plan(tier))
    if cases:
        plan['cases'] = cases
    if time_s:
        plan['time_s'] = time_s
    nworkers = workers or plan.get('workers', 16)
    nworkers = max(1, min(nworkers, plan['cases']))
    if hasattr(mod, 'prepare'):
        mod.prepare()
    workdir = os.path.join(VERIF_DIR, 'work', '%s-%d' % (prop_id, os.getpid()))
    os.makedirs(workdir, exist_ok=True)
    env = dict(os.environ)
    env['PYTHONHASHSEED'] = '0'
    env['VERIF_REPO'] = REPO_DIR
    env['PYTHONDONTWRITEBYTECODE'] = '1'
    env['VERIF_WORKDIR'] = workdir
    procs = []
    for s in range(nworkers):
        out = os.path.join(workdir, 'shard%d.json' % s)
        args = {'prop': prop_id, 'tier': tier, 'seed': seed, 'shard': s,
                'nshards': nworkers, 'plan': plan, 'out': out}
        log = open(os.path.join(workdir, 'shard%d.log' % s), 'wb')
        p = subprocess.Popen(
            [sys.executable, '-X', 'faulthandler', '-m', 'vf.worker',
             json.dumps(args)],
            cwd=VERIF_DIR, env=env, stdout=log, stderr=subprocess.STDOUT)
        procs.append((p, out, log))
    wall_cap = plan['time_s'] * 2 + 120
    merged = {'evaluations': 0, 'distinct': set(), 'samples': [],
              'events': Counter(), 'classes': Counter(), 'outcomes': Counter(),
              'violations': [], 'viol_counts': Counter(), 'extra': {},
              'workers': nworkers, 'cases_planned': plan['cases'],
              'cases_run': 0, 'time_cap': False}
    inconclusive = []
    harness_errors = []
    for s, (p, out, log) in enumerate(procs):
        try:
            rc = p.wait(timeout=max(1, wall_cap - (time.monotonic() - t0)))
        except subprocess.TimeoutExpired:
            p.send_signal(signal.SIGABRT)   # faulthandler dumps the stacks
            try:
                p.wait(timeout=10)
            except subprocess.TimeoutExpired:
                p.kill()
            rc = 'watchdog'
        log.close()
        if rc != 0 or not os.path.exists(out):
            tail = ''
            try:
                with open(log.name, 'rb') as f:
                    tail = f.read()[-1500:].decode('utf-8', 'replace')
            except OSError:
                pass
            inconclusive.append('worker %d ended with %r: %s' % (s, rc, tail))
            continue
        with open(out, encoding='utf-8') as f:
            r = json.load(f)
        merged['evaluations'] += r['evaluations']
        merged['distinct'].update(r['distinct'])
        for smp in r['samples']:
            if len(merged['samples']) < MAX_SAMPLES and s % 4 == 0 or \
                    not merged['samples']:
                merged['samples'].append(smp)
        merged['events'].update(r['events'])
        merged['classes'].update(r['classes'])
        merged['outcomes'].update(r['outcomes'])
        merged['violations'].extend(r['violations'])
        merged['viol_counts'].update(r['viol_counts'])
        merged['cases_run'] += r['extra'].pop('cases_run', 0)
        merged['time_cap'] |= bool(r['extra'].pop('stopped_at_time_cap', 0))
        merge_extra(merged['extra'], r['extra'])
        harness_errors.extend(r['harness_errors'])
        if r['n_harness_errors']:
            merged['extra']['harness_errors'] = \
                merged['extra'].get('harness_errors', 0) + \
                r['n_harness_errors']
    # optional parent-side stage of a check (e.g. the repository's own tests
    # under runtime contracts in a thorough tier)
    if hasattr(mod, 'post_run'):
        try:
            post = mod.post_run(tier, seed, workdir) or {}
        except Exception:  # pylint: disable=broad-except
            post = {'inconclusive': ['post_run failed: ' +
                                     traceback.format_exc()[-800:]]}
        counts = post.get('viol_counts')
        for v in post.get('violations', []):
            merged['violations'].append(v)
            if counts is None:
                merged['viol_counts'][v['key']] += 1
        for k, c in (counts or {}).items():
            merged['viol_counts'][k] += c
        merged['events'].update(post.get('events', {}))
        merge_extra(merged['extra'], post.get('extra', {}))
        inconclusive.extend(post.get('inconclusive', []))
    for k in ('events', 'classes', 'outcomes'):
        merged[k] = dict(sorted(merged[k].items()))

    # ---- verdict ---------------------------------------------------------
    # VERIF_IGNORE_KNOWN=1 (development only): report known findings as
    # violations too, to inspect their current witnesses
    known = [] if os.environ.get('VERIF_IGNORE_KNOWN') else load_known()
    known_hit = {}
    unlisted = {}
    for v in merged['violations']:
        k = match_known(known, prop_id, v['key'])
        if k is not None:
            known_hit.setdefault(k['key'], k)
        else:
            unlisted.setdefault(v['key'], v)
    for key, k in sorted(known_hit.items()):
        n = sum(c for kk, c in merged['viol_counts'].items()
                if match_known([k], prop_id, kk))
        print('KNOWN-FINDING: property=%s %s [key=%s, seen %d times]' %
              (prop_id, k['what'], k['key'], n))
    rc = 0
    if unlisted:
        rdir = os.path.join(VERIF_DIR, 'replay', prop_id) \
            if REPO_DIR == '/repo' else \
            os.path.join(VERIF_DIR, 'work', 'scratch-replay', prop_id)
        os.makedirs(rdir, exist_ok=True)
        for key, v in sorted(unlisted.items()):
            rec = dict(v)
            rec.update({'property': prop_id, 'tier': tier,
                        'count': merged['viol_counts'].get(key, 1)})
            path = os.path.join(rdir, '%016x.json' % h64(key))
            with open(path, 'w', encoding='utf-8') as f:
                json.dump(rec, f, indent=1, default=str)
            print('VIOLATION property=%s replay=%s' % (prop_id, path))
            print('  key=%s (%d occurrences)' % (key, rec['count']))
            print('  ' + v['what'].replace('\n', '\n  ')[:1200])
        rc = 1
    if harness_errors:
        inconclusive.append('%d harness errors, first: %s' % (
            merged['extra'].get('harness_errors', len(harness_errors)),
            harness_errors[0]['traceback'][-1200:]))
    if merged['evaluations'] < meta.get('min_eval', 1):
        inconclusive.append('only %d evaluations (< %d)' % (
            merged['evaluations'], meta.get('min_eval', 1)))
    if len(merged['distinct']) < meta.get('min_distinct', 2):
        inconclusive.append('only %d distinct non-trivial cases (< %d)' % (
            len(merged['distinct']), meta.get('min_distinct', 2)))
    for ev in meta.get('required_events', []):
        if not merged['events'].get(ev):
            inconclusive.append('deciding code never reached: %s' % ev)
    wall = time.monotonic() - t0
    path = write_evidence(mod, tier, seed, merged, wall, inconclusive,
                          len(unlisted),
                          {k: v['what'] for k, v in known_hit.items()})
    if rc == 0 and inconclusive:
        for r in inconclusive:
            print('INCONCLUSIVE property=%s reason=%s' % (prop_id, r))
        rc = 2
    print('%s %s tier=%s seed=%d: %d evaluations, %d distinct non-trivial, '
          '%d unlisted violation keys, %d known findings, %.1fs -> %s' % (
              prop_id, {0: 'HELD', 1: 'VIOLATED', 2: 'INCONCLUSIVE'}[rc],
              tier, seed, merged['evaluations'], len(merged['distinct']),
              len(unlisted), len(known_hit), wall, path))
    # scratch output of the workers is removed; replay files stay
    import shutil
    shutil.rmtree(workdir, ignore_errors=True)
    return rc


def main_replay(prop_id, path):
    mod = load_prop(prop_id)
    with open(path, encoding='utf-8') as f:
        rec = json.load(f)
    ctx = Ctx(prop_id, rec.get('tier', 'quick'), rec['seed'], replay=True)
    ctx.replay_rec = rec     # checks with worker state may replay recorded I/O
    signal.signal(signal.SIGVTALRM, _alarm)
    if hasattr(mod, 'prepare'):
        mod.prepare()
    if hasattr(mod, 'setup_worker'):
        mod.setup_worker(ctx)
    plan = mod.plan(rec.get('tier', 'quick'))
    if rec.get('harvested') and hasattr(mod, 'replay_harvested'):
        # witness from the oracle applied to an object harvested from the
        # repository's tests: judge the recorded object again
        mod.replay_harvested(ctx, rec)
    else:
        run_one_case(mod, ctx, rec['case'], 4 * plan.get('case_cpu_s', 60))
    if hasattr(mod, 'finish_worker'):
        mod.finish_worker(ctx)
    keys = sorted(ctx.viol_counts)
    for v in ctx.violations:
        print('replayed violation key=%s\n  %s' % (v['key'], v['what']))
        if v.get('detail'):
            print('  detail: %s' % short(v['detail'], 3000))
    for h in ctx.harness_errors:
        print('harness error:\n' + h['traceback'])
    if rec['key'] in keys:
        print('VIOLATION property=%s replay=%s' % (prop_id, path))
        return 1
    print('replay of case %s (seed %s): key %r not reproduced; keys seen: %s'
          % (rec['case'], rec['seed'], rec['key'], keys))
    return 1 if keys else 0
