"""Catalogue of the public WBEMConnection operation methods and generators of
argument sets for them.

`gen_call(rng, G)` -> (opname, args, kwargs) where G is a "material" object
that supplies class names, instance names, instances, classes, namespaces,
strings...: RepoMaterial draws mostly from an existing simplerepo repository
(so the calls reach the server and mostly succeed), HostileMaterial draws
from vf.cimgen incl. content that XML cannot carry (C03).
"""
import pywbem
from pywbem import (CIMInstanceName, CIMClassName, CIMInstance, CIMClass,
                    CIMProperty, CIMParameter, CIMQualifierDeclaration,
                    Uint8, Uint16, Uint32, Uint64, Sint32, Real32, Real64,
                    CIMDateTime)

from . import cimgen

ALL_OPS = [
    'EnumerateInstances', 'EnumerateInstanceNames', 'GetInstance',
    'ModifyInstance', 'CreateInstance', 'DeleteInstance', 'Associators',
    'AssociatorNames', 'References', 'ReferenceNames', 'InvokeMethod',
    'ExecQuery', 'IterEnumerateInstances', 'IterEnumerateInstancePaths',
    'IterAssociatorInstances', 'IterAssociatorInstancePaths',
    'IterReferenceInstances', 'IterReferenceInstancePaths',
    'IterQueryInstances', 'OpenEnumerateInstances',
    'OpenEnumerateInstancePaths', 'OpenAssociatorInstances',
    'OpenAssociatorInstancePaths', 'OpenReferenceInstances',
    'OpenReferenceInstancePaths', 'OpenQueryInstances',
    'PullInstancesWithPath', 'PullInstancePaths', 'PullInstances',
    'CloseEnumeration', 'EnumerateClasses', 'EnumerateClassNames', 'GetClass',
    'ModifyClass', 'CreateClass', 'DeleteClass', 'EnumerateQualifiers',
    'GetQualifier', 'SetQualifier', 'DeleteQualifier', 'ExportIndication',
]
ITER_OPS = [o for o in ALL_OPS if o.startswith('Iter')]


def KEYQ():
    """Key qualifier with the flavors of its declaration spelled out: an
    unspecified flavor (None) means 'true/false by DTD default' on the wire but
    'take it from the declaration' for a server working on objects, which is
    a difference of representation, not of pywbem's behaviour."""
    return pywbem.CIMQualifier('Key', True, overridable=False,
                               tosubclass=True, toinstance=False,
                               translatable=False)


def public_operations():
    """The operation methods found by reflection (names starting with an
    upper-case letter); used to prove the catalogue is complete."""
    return sorted(n for n in dir(pywbem.WBEMConnection)
                  if n[0].isupper() and callable(
                      getattr(pywbem.WBEMConnection, n)))


class RepoMaterial:
    """Arguments that refer to a vf.simplerepo repository."""

    hostile = False

    def __init__(self, rng, info):
        self.rng = rng
        self.info = info

    def ns(self):
        r = self.rng.random()
        if r < 0.4:
            return None
        if r < 0.9:
            return self.rng.choice(self.info['namespaces'])
        return self.rng.choice(['root/nonexistent', '/root/cimv2/',
                                'ROOT/CIMV2', '//root/cimv2//'])

    def real_ns(self):
        return self.rng.choice(self.info['namespaces'])

    def classname_str(self):
        return self.rng.choice(['VF_Base', 'VF_Base', 'VF_Sub', 'VF_Other',
                                'VF_Link', 'vf_base', 'VF_NoSuch'])

    def classname(self, s=None):
        s = s or self.classname_str()
        r = self.rng.random()
        if r < 0.5:
            return s
        if r < 0.8:
            return CIMClassName(s)
        return CIMClassName(s, namespace=self.real_ns(),
                            host=self.rng.choice([None, 'somehost']))

    def instancename(self, with_ns=None):
        ns = self.real_ns()
        pool = self.info['base'][ns] + self.info['other'][ns] + \
            self.info['link'][ns]
        r = self.rng.random()
        if pool and r < 0.85:
            p = self.rng.choice(pool).copy()
        elif r < 0.93:
            p = CIMInstanceName('VF_Base', {'Id': 'nope'})
        else:
            p = CIMInstanceName('VF_NoSuch', {'k': Uint8(1)})
        q = self.rng.random()
        if with_ns is False or (with_ns is None and q < 0.3):
            p.namespace = None
            p.host = None
        elif q < 0.8:
            p.namespace = ns
            p.host = None
        else:
            p.namespace = ns
            p.host = 'otherhost:5989'
        return p

    def objectname(self):
        if self.rng.random() < 0.6:
            return self.instancename()
        return self.classname()

    def bool(self):
        return self.rng.choice([None, None, True, False])

    def proplist(self):
        r = self.rng.random()
        if r < 0.4:
            return None
        names = ['Id', 'P_uint8', 'A_string', 'Extra', 'N', 'S', 'Note',
                 'p_boolean', 'NoSuchProp', 'EI']
        k = self.rng.randint(0, 3)
        lst = self.rng.sample(names, k)
        if r < 0.6:
            return lst
        if r < 0.8:
            return tuple(lst)
        if r < 0.9 and lst:
            return lst[0]
        return []

    # text that reads like a value of another type (a server-side decoder must
    # not turn a string parameter into a boolean, number or NULL)
    LOOKALIKES = ['true', 'FALSE', 'TRUE', 'False', '0', '1', 'null', 'NULL',
                  '123', '-1', '1.5', 'INF', '20200101000000.000000+000', '']

    def role(self):
        return self.rng.choice([None, None, 'Left', 'Right', 'left', 'NoRole',
                                self.rng.choice(self.LOOKALIKES)])

    def assoc_class(self):
        return self.rng.choice([None, None, 'VF_Link', CIMClassName('VF_Link'),
                                'vf_link', 'VF_Base', 'VF_NoSuch'])

    def result_class(self):
        return self.rng.choice([None, None, 'VF_Other', 'VF_Base', 'VF_Sub',
                                CIMClassName('VF_Other'), 'VF_NoSuch'])

    def query(self):
        return self.rng.choice(['select * from VF_Other',
                                'SELECT Id FROM VF_Base WHERE Id = "id1"',
                                cimgen.string(self.rng),
                                self.rng.choice(self.LOOKALIKES)])

    def qlang(self):
        return self.rng.choice(['DMTF:CQL', 'WQL', 'DMTF:FQL'])

    def string(self):
        return cimgen.string(self.rng)

    def new_instance(self):
        rng = self.rng
        r = rng.random()
        if r < 0.45:
            props = [('N', Uint32(rng.randint(0, 60))),
                     ('S', rng.choice(['s0', 'new', cimgen.string(rng)]))]
            if rng.random() < 0.5:
                props.append(('Note', cimgen.string(rng)))
            return CIMInstance('VF_Other', properties=props)
        if r < 0.9:
            cls = rng.choice(['VF_Base', 'VF_Sub'])
            props = [('Id', rng.choice(['id0', 'new%d' % rng.randint(0, 9),
                                        cimgen.string(rng)]))]
            for t in cimgen.SIMPLE_TYPES:
                if rng.random() < 0.35:
                    props.append(CIMProperty(
                        'P_' + t, cimgen.value(rng, t, False), type=t))
                if rng.random() < 0.2:
                    props.append(CIMProperty(
                        'A_' + t, cimgen.value(rng, t, True, nulls=False),
                        type=t, is_array=True))
            if rng.random() < 0.2:
                props.append(CIMProperty(
                    'EI', CIMInstance('VF_Other', properties=[
                        ('N', Uint32(1)), ('S', cimgen.string(rng))]),
                    embedded_object='instance'))
            if rng.random() < 0.25:
                props.append(CIMProperty(
                    'EIA', [CIMInstance('VF_Other', properties=[
                        ('N', Uint32(j)), ('S', cimgen.string(rng))])
                        for j in range(rng.choice([0, 0, 1, 2]))],
                    type='string', is_array=True,
                    embedded_object='instance'))
            if rng.random() < 0.1:
                props.append(('NoSuchProp', 'x'))
            return CIMInstance(cls, properties=props)
        return cimgen.instance(rng, with_path=False)

    def modified_instance(self):
        rng = self.rng
        path = self.instancename()
        props = []
        if path.classname.lower() in ('vf_base', 'vf_sub'):
            for t in rng.sample(cimgen.SIMPLE_TYPES, 3):
                props.append(CIMProperty(
                    'P_' + t, cimgen.value(rng, t, False), type=t))
        else:
            props.append(('Note', cimgen.string(rng)))
        inst = CIMInstance(path.classname, properties=props)
        inst.path = path
        return inst

    def new_class(self):
        rng = self.rng
        name = rng.choice(['VF_New%d' % rng.randint(0, 5), 'VF_Base'])
        props = [CIMProperty('K', None, type='string', qualifiers=[KEYQ()])]
        for t in rng.sample(cimgen.SIMPLE_TYPES, 3):
            props.append(CIMProperty('N_' + t, cimgen.value(rng, t, False),
                                     type=t))
        return CIMClass(name, properties=props,
                        superclass=rng.choice([None, None, 'VF_Other',
                                               'VF_NoSuch']))

    def modified_class(self):
        rng = self.rng
        props = [CIMProperty('N', None, type='uint32', qualifiers=[KEYQ()]),
            CIMProperty('S', None, type='string', qualifiers=[KEYQ()]),
            CIMProperty('Note', cimgen.string(rng), type='string'),
            CIMProperty('Added', None, type=rng.choice(cimgen.SIMPLE_TYPES))]
        return CIMClass(rng.choice(['VF_Other', 'VF_Other', 'VF_NoSuch']),
                        properties=props)

    def qualifier_name(self):
        return self.rng.choice(['Key', 'Description', 'MaxLen', 'NoSuchQual',
                                'key', 'VFQ',
                                self.rng.choice(self.LOOKALIKES) or 'x'])

    def qualifier_decl(self):
        qd = cimgen.qualifier_declaration(self.rng, self.rng.choice(
            ['VFQ', 'VFQ2', 'MaxLen']))
        return qd

    def method_call(self):
        """(MethodName, ObjectName, Params, kwargs)"""
        rng = self.rng
        r = rng.random()
        obj = rng.choice(['VF_Base', CIMClassName('VF_Base'),
                          CIMClassName('VF_Base', namespace=self.real_ns()),
                          CIMClassName('VF_Base', namespace=self.real_ns(),
                                       host='somehost:5988')])
        if r < 0.7:
            t = rng.choice(cimgen.SIMPLE_TYPES)
            v = cimgen.value(rng, t, False, null=0.1)
            va = cimgen.value(rng, t, True, null=0.1,
                              nulls=rng.random() < 0.3)
            if t == 'char16' and rng.random() < 0.6:
                # the CIM data type class instead of a plain one-character str
                v = pywbem.Char16(v) if v is not None else None
                va = [pywbem.Char16(x) if x is not None else None
                      for x in va] if va is not None else None
            if rng.random() < 0.08:
                t = 'datetime'
                v = None
            if t == 'datetime' and (v is None or rng.random() < 0.3):
                # python datetime/timedelta objects are accepted for datetime
                import datetime as _dt
                v = rng.choice([
                    _dt.datetime(2020, 2, 29, 12, 30, 5, 250000),
                    _dt.datetime(2001, 1, 1, tzinfo=pywbem.MinutesFromUTC(90)),
                    _dt.timedelta(days=3, seconds=7, microseconds=9)])
                va = [v, _dt.timedelta(seconds=61)]
            return self._shape('Echo_' + t, obj, t, v, va)
        if r < 0.8:
            ns = self.real_ns()
            pool = self.info['other'][ns]
            v = rng.choice(pool).copy() if pool else None
            va = [p.copy() for p in pool[:2]]
            if va and rng.random() < 0.2:
                va.insert(rng.randint(1, len(va)), None)   # NULL entry
            if rng.random() < 0.25:
                # class paths are references as well
                cp = [CIMClassName('VF_Other', namespace=ns),
                      CIMClassName('VF_Sub'),
                      CIMClassName('VF_Other', namespace=ns, host='h.example')]
                if rng.random() < 0.5:
                    v = rng.choice(cp)
                va = [rng.choice(cp) for _ in range(rng.choice([1, 2]))] + \
                    (va if rng.random() < 0.3 else [])
            return self._shape('Echo_reference', obj, 'reference', v, va)
        if r < 0.9:
            v = CIMInstance('VF_Other', properties=[
                ('N', Uint32(3)), ('S', cimgen.string(rng))])
            va = [v.copy(), CIMInstance('VF_Other', properties=[
                ('N', Uint32(4)), ('S', 'x')])][:rng.choice([0, 1, 2, 2])]
            return self._shape('Echo_embedded', obj, 'string', v, va,
                               emb='instance')
        ns = self.real_ns()
        pool = self.info['base'][ns]
        p = rng.choice(pool).copy()
        q = rng.random()
        if q < 0.25:
            p.namespace = None       # as returned by EnumerateInstanceNames
        elif q < 0.5:
            p.namespace = ns
            p.host = 'otherhost:5989'   # as returned by AssociatorNames
        return ('InstMeth', p, None, {'S': cimgen.string(rng)})

    def _shape(self, mname, obj, t, v, va, emb=None):
        rng = self.rng
        shape = rng.choice(['kwargs', 'tuples', 'cimparams', 'mixed'])
        if isinstance(v, (int, float)) and not isinstance(
                v, (bool, pywbem.CIMInt, pywbem.CIMFloat)):
            shape = 'cimparams'
        pv = CIMParameter('V', t, value=v, embedded_object=emb)
        pva = CIMParameter('VA', t, value=va, is_array=True,
                           embedded_object=emb)
        if shape == 'cimparams' or v is None or va is None or va == [] or \
                (isinstance(va, list) and va and va[0] is None):
            # untyped shapes cannot carry NULL / empty arrays (type inference)
            return (mname, obj, [pv, pva], {})
        if shape == 'kwargs':
            return (mname, obj, None, {'V': v, 'VA': va})
        if shape == 'tuples':
            return (mname, obj, [('V', v), ('VA', va)], {})
        return (mname, obj, [pv], {'VA': va})

    def indication(self):
        return cimgen.instance(self.rng, with_path=False)

    def max_object_count(self):
        return self.rng.choice([1, 2, 3, 10, 100, Uint32(5)])

    def timeout(self):
        return self.rng.choice([None, None, 0, 5, Uint32(30)])


class HostileMaterial(RepoMaterial):
    """Every accepted argument shape with arbitrary (also unrepresentable)
    content - for C03."""

    hostile = True
    BAD = ['\x00', '\x01', '\x0b', '\x1f', '\ufffe', '\uffff', '\ud800',
           '\udfff', 'a\x08b']

    def __init__(self, rng):
        super().__init__(rng, None)

    def _bad(self, s):
        if self.rng.random() < 0.25:
            pos = self.rng.randint(0, len(s))
            return s[:pos] + self.rng.choice(self.BAD) + s[pos:]
        return s

    def string(self):
        return self._bad(cimgen.string(self.rng))

    def name(self):
        r = self.rng.random()
        if r < 0.7:
            return cimgen.name(self.rng)
        if r < 0.85:
            return self.rng.choice(['a b', 'a"b', "a'b", 'a<b', 'a&b', 'a>b',
                                    '', ' ', 'a\tb', 'a\nb', '\xe4\xf6',
                                    'x' * 300])
        return self._bad(cimgen.name(self.rng))

    def ns(self):
        r = self.rng.random()
        if r < 0.3:
            return None
        if r < 0.7:
            return cimgen.namespace(self.rng)
        return self.rng.choice(['root/a b', 'root/"q"', 'root/<x>', '/root/',
                                'root//x', 'r&d/ns', 'root/\xe4', '',
                                self._bad('root/x')])

    real_ns = ns

    def classname_str(self):
        return self.name() if self.rng.random() < 0.3 \
            else cimgen.classname(self.rng)

    def classname(self, s=None):
        s = s or self.classname_str()
        r = self.rng.random()
        if r < 0.4:
            return s
        return CIMClassName(s, namespace=self.ns() if r < 0.8 else None,
                            host=cimgen.host(self.rng) if r < 0.6 else None)

    def _hostile_path(self):
        rng = self.rng
        p = cimgen.instancename(rng)
        if rng.random() < 0.3:
            kb = {}
            for k, v in p.keybindings.items():
                if isinstance(v, str) and rng.random() < 0.5:
                    v = self._bad(v)
                kb[self.name() if rng.random() < 0.3 else k] = v
            try:
                p = CIMInstanceName(self.classname_str(), kb,
                                    namespace=p.namespace, host=p.host)
            except (TypeError, ValueError):
                pass
        return p

    def instancename(self, with_ns=None):
        return self._hostile_path()

    def proplist(self):
        r = self.rng.random()
        if r < 0.3:
            return None
        lst = [self.name() for _ in range(self.rng.randint(0, 3))]
        if r < 0.6:
            return lst
        if r < 0.8:
            return tuple(lst)
        if r < 0.9:
            return self.name()
        return []

    def role(self):
        return self.rng.choice([None, self.name(), self.string()])

    def assoc_class(self):
        return self.rng.choice([None, self.classname()])

    result_class = assoc_class

    def query(self):
        return self.string()

    def qlang(self):
        return self.rng.choice(['DMTF:CQL', 'WQL', self.string()])

    def _hostile_instance(self):
        rng = self.rng
        inst = cimgen.instance(rng, with_path=rng.random() < 0.5)
        if rng.random() < 0.4:
            for pname in list(inst.properties.keys()):
                p = inst.properties[pname]
                if isinstance(p.value, str) and rng.random() < 0.5:
                    try:
                        p.value = self._bad(p.value)
                    except (TypeError, ValueError):
                        pass
        if rng.random() < 0.15:
            try:
                inst.classname = self.name()
            except (TypeError, ValueError):
                pass
        return inst

    def new_instance(self):
        return self._hostile_instance()

    def modified_instance(self):
        inst = self._hostile_instance()
        if inst.path is None or self.rng.random() < 0.7:
            inst.path = self._hostile_path()
        return inst

    def new_class(self):
        return cimgen.cimclass(self.rng, with_path=self.rng.random() < 0.3)

    modified_class = new_class

    def qualifier_name(self):
        return self.name()

    def qualifier_decl(self):
        return cimgen.qualifier_declaration(self.rng)

    def method_call(self):
        rng = self.rng
        obj = self.objectname()
        mname = self.name()
        n = rng.randint(0, 4)
        params, kwargs = [], {}
        for pname in cimgen.unique_names(rng, n):
            r = rng.random()
            t = rng.choice(cimgen.ALL_TYPES)
            is_array = rng.random() < 0.4
            if t == 'reference':
                v = [cimgen.instancename(rng) for _ in range(rng.randint(0, 3))] \
                    if is_array else rng.choice(
                        [cimgen.instancename(rng), cimgen.classname_obj(rng)])
            elif t == 'string' and rng.random() < 0.4:
                e = rng.choice([cimgen.instance(rng, 1, with_path=False),
                                cimgen.cimclass(rng, 1, small=True)])
                v = [e, e.copy()] if is_array else e
            else:
                v = cimgen.value(rng, t, is_array, null=0.1)
                if isinstance(v, str):
                    v = self._bad(v)
                elif isinstance(v, list):
                    v = [self._bad(x) if isinstance(x, str) else x for x in v]
            if r < 0.4:
                emb = None
                probe = v[0] if isinstance(v, list) and v else v
                if isinstance(probe, CIMInstance):
                    emb = 'instance'
                elif isinstance(probe, CIMClass):
                    emb = 'object'
                try:
                    params.append(CIMParameter(pname, t, value=v,
                                               is_array=is_array,
                                               embedded_object=emb))
                except (TypeError, ValueError):
                    pass
            elif r < 0.7:
                params.append((pname, v))
            else:
                kwargs[pname] = v
        if rng.random() < 0.15:
            kwargs[self.name()] = self.string()
        return (mname, obj, params or None, kwargs)

    def indication(self):
        return self._hostile_instance()

    def max_object_count(self):
        return self.rng.choice([1, 100, Uint32(7), 0, 2 ** 32 - 1])

    def timeout(self):
        return self.rng.choice([None, 0, 5, Uint32(30), 2 ** 32 - 1])


def gen_call(rng, G, op=None, context=None):
    """-> (op, args, kwargs).  `context` is an enumeration context for the
    Pull/Close operations (a (string, namespace) tuple)."""
    op = op or rng.choice(ALL_OPS)
    kw = {}

    def opt(name, val):
        if val is not None or rng.random() < 0.1:
            kw[name] = val

    if op in ('EnumerateInstances', 'IterEnumerateInstances',
              'OpenEnumerateInstances'):
        args = (G.classname(),)
        opt('namespace', G.ns())
        if op != 'OpenEnumerateInstances':
            opt('LocalOnly', G.bool())
            opt('IncludeQualifiers', G.bool())
        opt('DeepInheritance', G.bool())
        opt('IncludeClassOrigin', G.bool())
        opt('PropertyList', G.proplist())
    elif op in ('EnumerateInstanceNames', 'IterEnumerateInstancePaths',
                'OpenEnumerateInstancePaths'):
        args = (G.classname(),)
        opt('namespace', G.ns())
    elif op == 'GetInstance':
        args = (G.instancename(),)
        opt('LocalOnly', G.bool())
        opt('IncludeQualifiers', G.bool())
        opt('IncludeClassOrigin', G.bool())
        opt('PropertyList', G.proplist())
    elif op == 'ModifyInstance':
        args = (G.modified_instance(),)
        opt('IncludeQualifiers', G.bool())
        opt('PropertyList', G.proplist())
    elif op == 'CreateInstance':
        args = (G.new_instance(),)
        opt('namespace', G.ns())
    elif op == 'DeleteInstance':
        args = (G.instancename(),)
    elif op in ('Associators', 'AssociatorNames'):
        args = (G.objectname(),)
        opt('AssocClass', G.assoc_class())
        opt('ResultClass', G.result_class())
        opt('Role', G.role())
        opt('ResultRole', G.role())
        if op == 'Associators':
            opt('IncludeQualifiers', G.bool())
            opt('IncludeClassOrigin', G.bool())
            opt('PropertyList', G.proplist())
    elif op in ('References', 'ReferenceNames'):
        args = (G.objectname(),)
        opt('ResultClass', G.assoc_class())
        opt('Role', G.role())
        if op == 'References':
            opt('IncludeQualifiers', G.bool())
            opt('IncludeClassOrigin', G.bool())
            opt('PropertyList', G.proplist())
    elif op in ('IterAssociatorInstances', 'OpenAssociatorInstances',
                'IterAssociatorInstancePaths', 'OpenAssociatorInstancePaths'):
        args = (G.instancename(),)
        opt('AssocClass', G.assoc_class())
        opt('ResultClass', G.result_class())
        opt('Role', G.role())
        opt('ResultRole', G.role())
        if op.endswith('Instances'):
            if op.startswith('Iter'):
                opt('IncludeQualifiers', G.bool())
            opt('IncludeClassOrigin', G.bool())
            opt('PropertyList', G.proplist())
    elif op in ('IterReferenceInstances', 'OpenReferenceInstances',
                'IterReferenceInstancePaths', 'OpenReferenceInstancePaths'):
        args = (G.instancename(),)
        opt('ResultClass', G.assoc_class())
        opt('Role', G.role())
        if op.endswith('Instances'):
            if op.startswith('Iter'):
                opt('IncludeQualifiers', G.bool())
            opt('IncludeClassOrigin', G.bool())
            opt('PropertyList', G.proplist())
    elif op == 'InvokeMethod':
        m, obj, params, kwargs = G.method_call()
        args = (m, obj) if params is None else (m, obj, params)
        kw.update(kwargs)
        return op, args, kw
    elif op == 'ExecQuery':
        args = (G.qlang(), G.query())
        opt('namespace', G.ns())
    elif op in ('IterQueryInstances', 'OpenQueryInstances'):
        args = (G.qlang(), G.query())
        opt('namespace', G.ns())
        opt('ReturnQueryResultClass', G.bool())
    elif op in ('PullInstancesWithPath', 'PullInstancePaths',
                'PullInstances'):
        ctx = context or (G.string(), G.ns() or 'root/cimv2')
        args = (ctx, G.max_object_count())
    elif op == 'CloseEnumeration':
        ctx = context or (G.string(), G.ns() or 'root/cimv2')
        args = (ctx,)
    elif op == 'EnumerateClasses':
        args = ()
        opt('namespace', G.ns())
        opt('ClassName', rng.choice([None, G.classname()]))
        opt('DeepInheritance', G.bool())
        opt('LocalOnly', G.bool())
        opt('IncludeQualifiers', G.bool())
        opt('IncludeClassOrigin', G.bool())
    elif op == 'EnumerateClassNames':
        args = ()
        opt('namespace', G.ns())
        opt('ClassName', rng.choice([None, G.classname()]))
        opt('DeepInheritance', G.bool())
    elif op == 'GetClass':
        args = (G.classname(),)
        opt('namespace', G.ns())
        opt('LocalOnly', G.bool())
        opt('IncludeQualifiers', G.bool())
        opt('IncludeClassOrigin', G.bool())
        opt('PropertyList', G.proplist())
    elif op == 'ModifyClass':
        args = (G.modified_class(),)
        opt('namespace', G.ns())
    elif op == 'CreateClass':
        args = (G.new_class(),)
        opt('namespace', G.ns())
    elif op == 'DeleteClass':
        args = (G.classname(rng.choice(['VF_New0', 'VF_New1', 'VF_NoSuch',
                                        'VF_Link']))
                if not G.hostile else G.classname(),)
        opt('namespace', G.ns())
    elif op == 'EnumerateQualifiers':
        args = ()
        opt('namespace', G.ns())
    elif op in ('GetQualifier', 'DeleteQualifier'):
        args = (G.qualifier_name(),)
        opt('namespace', G.ns())
    elif op == 'SetQualifier':
        args = (G.qualifier_decl(),)
        opt('namespace', G.ns())
    elif op == 'ExportIndication':
        args = (G.indication(),)
    else:
        raise ValueError(op)
    if op.startswith('Iter') or op.startswith('Open'):
        if rng.random() < 0.15:
            kw['FilterQueryLanguage'] = G.qlang()
            kw['FilterQuery'] = G.query()
        opt('OperationTimeout', G.timeout())
        opt('ContinueOnError', rng.choice([None, None, False]))
        if rng.random() < 0.8:
            kw['MaxObjectCount'] = G.max_object_count()
    return op, args, kw


def describe(op, args, kw, n=500):
    s = '%s(%s)' % (op, ', '.join([repr(a) for a in args] +
                                  ['%s=%r' % i for i in kw.items()]))
    return s if len(s) < n else s[:n] + '...'


def drain(result, limit=500):
    """Materialise generator results of Iter operations (bounded)."""
    if hasattr(result, '__next__') or (hasattr(result, '__iter__') and
                                       hasattr(result, 'close')):
        out = []
        for x in result:
            out.append(x)
            if len(out) >= limit:
                result.close()
                break
        return out
    return result
