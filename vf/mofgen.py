"""Generators and projections shared by the MOF checks C08 and C09.

Everything here stays inside what MOF can express and what the tomof()
docstrings put in scope:

* names are ASCII CIM identifiers that are not reserved words of the pywbem
  MOF grammar (a few keyword-like names that the grammar accepts as
  identifiers are included on purpose),
* strings are over Unicode without U+0000 and without surrogates,
* reals are finite (MOF has no literal for infinities/NaN),
* a qualifier declaration has at least one scope,
* class declarations carry no embedded-object default values, instance
  qualifiers and paths are not written by tomof() (documented), qualifier
  *values* are written without flavors (tomof() writes none),
* properties are never arrays of references.
"""
import contextlib
import copy
import math
import re
import signal
import traceback

from pywbem import (CIMInstanceName, CIMClassName, CIMInstance, CIMClass,
                    CIMProperty, CIMMethod, CIMParameter, CIMQualifier,
                    CIMQualifierDeclaration, CIMDateTime, CIMInt, CIMFloat,
                    Real32)

from . import cimgen
from .fingerprint import fbits

SIMPLE_TYPES = cimgen.SIMPLE_TYPES

# identifiers the pywbem grammar accepts although they are keywords
KEYWORD_NAMES = ['Class', 'Of', 'Scope', 'any', 'string', 'Instance',
                 'Qualifier', 'pragma', 'As', 'Flavor', 'Schema', 'reference',
                 'uint8', 'Property', 'Method', 'Parameter', 'Translatable',
                 'Restricted', 'ToSubclass', 'EnableOverride', 'datetime',
                 'DisableOverride', 'ToInstance', 'boolean', 'char16']
RESERVED = {'any', 'as', 'association', 'class', 'disableoverride', 'boolean',
            'char16', 'datetime', 'pragma', 'real32', 'real64', 'sint16',
            'sint32', 'sint64', 'sint8', 'string', 'uint16', 'uint32',
            'uint64', 'uint8', 'enableoverride', 'false', 'flavor',
            'indication', 'instance', 'method', 'null', 'of', 'parameter',
            'property', 'qualifier', 'ref', 'reference', 'restricted',
            'schema', 'scope', 'tosubclass', 'toinstance', 'translatable',
            'true'}
SPECIAL_QUALS = {'key', 'embeddedinstance', 'embeddedobject', 'abstract'}

ID_START = 'abcdefghijklmnopqrstuvwxyzABCDEFGHIJKLMNOPQRSTUVWXYZ_'
ID_REST = ID_START + '0123456789'


def ident(rng, keywords=0.06):
    if rng.random() < keywords:
        return rng.choice(KEYWORD_NAMES)
    while True:
        n = rng.choice([1, 2, 3, 5, 8, 12, 20])
        s = rng.choice(ID_START) + ''.join(rng.choice(ID_REST)
                                           for _ in range(n - 1))
        if s.lower() not in RESERVED and s.lower() not in SPECIAL_QUALS:
            return s


def idents(rng, n, taken=None, keywords=0.06):
    """n identifiers, distinct from each other and from `taken` (a set of
    lower-cased names, updated)."""
    taken = taken if taken is not None else set()
    out = []
    while len(out) < n:
        s = ident(rng, keywords)
        if s.lower() not in taken:
            taken.add(s.lower())
            out.append(s)
    return out


# ------------------------------------------------------- CPU sub-budget ----

@contextlib.contextmanager
def cpu_limit(seconds, afterwards):
    """Run the body under its own CPU-time budget (the runner's SIGVTALRM
    handler raises CaseTimeout); afterwards the per-case watchdog is re-armed
    with `afterwards` seconds."""
    signal.setitimer(signal.ITIMER_VIRTUAL, seconds)
    try:
        yield
    finally:
        signal.setitimer(signal.ITIMER_VIRTUAL, afterwards)


def timeout_in_lexer(exc):
    """True if a CaseTimeout interrupted the regular-expression match of the
    PLY lexer (catastrophic backtracking of a token pattern)."""
    frames = [fs for fs in traceback.extract_tb(exc.__traceback__)
              if not fs.filename.endswith('runner.py')]
    return bool(frames) and frames[-1].name == 'token' and \
        frames[-1].filename.replace('\\', '/').endswith('ply/lex.py')


# ------------------------------------------------------------- strings ----

CONTROLS = ''.join(chr(c) for c in range(1, 32))
ESC_CHARS = '"\'\\' + CONTROLS
LETTERS = 'abcdefghijklmnopqrstuvwxyzABCDEFGHIJKLMNOPQRSTUVWXYZ0123456789'
PUNCT = '.,;:-_/()[]{}<>=+*#$%&!?|~^@`'
NONASCII = ['\x7f', '\x80', '\x85', '\xa0', '\xe4', '\xdf', 'Ж',
            '€', ' ', ' ', '中', '퟿', '',
            '﻿', '�', '￿', '\U00010000', '\U0001f600',
            '\U0010ffff',
            # decimal digits and digit-like characters outside ASCII
            # (str.isdigit()/isdecimal() are true for them)
            '\xb2', '\xb9', '٣', '߁', '१', '５',
            '\U0001d7d7']
UNICODE_DIGITS = ['\xb2', '\xb9', '٣', '߁', '१', '５',
                  '①', '\U0001d7d7', '\U0001d7ce']
LOOKALIKES = ['\\n', '\\t', '\\x41', '\\x0001', '\\X1', '\\"', "\\'", '\\\\',
              '\\', '\\x', '\\q', '""', "''", '" "', '";', '*/', '/*', '//',
              '#pragma', 'NULL', '{', '}', '\\x00']


def _esc_char(rng):
    r = rng.random()
    if r < 0.3:
        return '"'
    if r < 0.5:
        return "'"
    if r < 0.7:
        return '\\'
    return rng.choice(CONTROLS)


def _word(rng, n, esc_density, alphabet=LETTERS):
    return ''.join(_esc_char(rng) if rng.random() < esc_density
                   else rng.choice(alphabet) for _ in range(n))


STRING_CLASSES = ['empty', 'plain', 'sentence', 'longword', 'dense',
                  'straddle', 'nonascii', 'lookalike', 'blanks', 'one',
                  'mixed']


def mof_string(rng, cls=None, maxlen=400, apostrophes=True):
    """(class name, string).  The classes are directed at mofstr()'s folding
    and at the escape handling of generator and compiler."""
    cls = cls or rng.choice(STRING_CLASSES)
    if cls == 'empty':
        s = ''
    elif cls == 'one':
        s = rng.choice(ESC_CHARS + LETTERS + ' ')
    elif cls == 'plain':
        s = _word(rng, rng.randint(1, 30), 0, LETTERS + '  ' + PUNCT)
    elif cls == 'sentence':
        n = rng.randint(3, 60)
        d = rng.choice([0, 0, 0.03, 0.1])
        s = ' '.join(_word(rng, rng.randint(1, 12), d) for _ in range(n))
    elif cls == 'longword':
        # no blank at all: mofstr has to split inside the word
        s = _word(rng, rng.randint(30, 300), rng.choice([0, 0.02, 0.1]),
                  LETTERS + PUNCT)
    elif cls == 'dense':
        d = rng.choice([0.2, 0.4, 0.7, 1.0])
        s = _word(rng, rng.randint(20, 200), d)
        if rng.random() < 0.4:
            # a few blanks so that both split strategies are used
            s = ' '.join(s[i:i + 37] for i in range(0, len(s), 37))
    elif cls == 'straddle':
        # filler of a chosen length, then something needing an escape:
        # sweeps the escape sequence over the fold column
        parts = []
        for _ in range(rng.randint(1, 6)):
            parts.append(rng.choice(LETTERS) * rng.randint(0, 120))
            parts.append(''.join(_esc_char(rng)
                                 for _ in range(rng.randint(1, 3))))
        s = ''.join(parts)
    elif cls == 'nonascii':
        s = ''.join(rng.choice(NONASCII) if rng.random() < 0.4
                    else rng.choice(LETTERS + ' ')
                    for _ in range(rng.randint(1, 150)))
    elif cls == 'lookalike':
        s = ''.join(rng.choice(LOOKALIKES) if rng.random() < 0.5
                    else _word(rng, rng.randint(1, 8), 0)
                    for _ in range(rng.randint(1, 40)))
    elif cls == 'blanks':
        s = ''.join(rng.choice([' ', '  ', '   ', ' ' * 45, 'a', 'bc', '"',
                                "'", '\\', '\t'])
                    for _ in range(rng.randint(1, 80)))
    else:
        s = ''.join(mof_string(rng, rng.choice(STRING_CLASSES[:-1]))[1]
                    for _ in range(3))
    s = s[:maxlen]
    if not apostrophes:
        s = s.replace("'", 'Z')
    return cls, s


def char16(rng):
    r = rng.random()
    if r < 0.4:
        return rng.choice(LETTERS + ' ')
    if r < 0.7:
        return rng.choice('"\'\\' + PUNCT)
    if r < 0.85:
        return rng.choice(CONTROLS)
    return rng.choice([c for c in NONASCII if len(c) == 1 and
                       ord(c) < 0x10000])


def ref_escape(s):
    """Independent transcription of the DSP0004 escaping that
    _mof_escaped() documents (table in its docstring)."""
    out = []
    simple = {'\\': '\\\\', '\b': '\\b', '\t': '\\t', '\n': '\\n',
              '\f': '\\f', '\r': '\\r', '"': '\\"', "'": "\\'"}
    for ch in s:
        if ch in simple:
            out.append(simple[ch])
        elif 1 <= ord(ch) <= 31:
            out.append('\\x%04X' % ord(ch))
        else:
            out.append(ch)
    return ''.join(out)


_HEX = '0123456789abcdefABCDEF'


def escape_interior(E):
    """Offsets k of the escaped text E such that a cut between E[k-1] and
    E[k] lies inside an escape sequence."""
    inner = set()
    i = 0
    while i < len(E):
        if E[i] == '\\' and i + 1 < len(E):
            n = 2
            if E[i + 1] in 'xX':
                while n < 6 and i + n < len(E) and E[i + n] in _HEX:
                    n += 1
            inner.update(range(i + 1, i + n))
            i += n
        else:
            i += 1
    return inner


def fold_offsets(res, E, q):
    """Where did mofstr() cut?  `res` is its output for one value, E the
    expected escaped text, q the quote character.  Returns the list of offsets
    into E at which a new string part starts, or None if `res` is not E cut
    into quoted parts separated by white space."""
    lit = res.strip()
    if len(lit) < 2 or lit[0] != q or lit[-1] != q:
        return None
    body = lit[1:-1]
    n, m = len(body), len(E)
    # iterative depth-first search over states (position in body, offset in
    # E); pred remembers how a state was reached
    pred = {(0, 0): None}
    stack = [(0, 0)]
    while stack:
        p, k = stack.pop()
        if p == n and k == m:
            cuts = []
            cur = (p, k)
            while pred[cur] is not None:
                prev, was_cut = pred[cur]
                if was_cut:
                    cuts.append(cur[1])
                cur = prev
            return sorted(cuts)
        nxt = []
        # a cut: q, white space, q
        if p < n and body[p] == q:
            j = p + 1
            while j < n and body[j] in ' \n\t\r':
                j += 1
            if j < n and body[j] == q:
                nxt.append(((j + 1, k), True))
        # a literal character (tried first: pushed last)
        if p < n and k < m and body[p] == E[k]:
            nxt.append(((p + 1, k + 1), False))
        for st, was_cut in nxt:
            if st not in pred:
                pred[st] = ((p, k), was_cut)
                stack.append(st)
    return None


# ------------------------------------- string constants written by hand ----
# The string clause of C08 is about MOF string literals "written in the
# source", not only about what tomof() writes: a string constant is any number
# of adjacent literals, every character may be written raw or in any of its
# DSP0004 escape forms (simple escape, \x or \X with 1 to 4 hex digits).

SIMPLE_ESCAPES = {'\\': '\\\\', '\b': '\\b', '\t': '\\t', '\n': '\\n',
                  '\f': '\\f', '\r': '\\r', '"': '\\"', "'": "\\'"}
LITERAL_SEPARATORS = [' ', ' ', '\n', '\n      ', '\t', '  ', '\r\n   ',
                      ' /* c */ ', ' // c\n   ', '']


def handmade_string(rng):
    """A string directed at the joints between literals and at the ends of
    hex escapes: control characters, hex digits, digits outside ASCII."""
    r = rng.random()
    if r < 0.35:
        return mof_string(rng, maxlen=60)[1]
    out = []
    for _ in range(rng.choice([1, 2, 3, 5, 8, 13, 30])):
        q = rng.random()
        if q < 0.3:
            out.append(rng.choice(CONTROLS))
        elif q < 0.55:
            out.append(rng.choice(_HEX))
        elif q < 0.65:
            out.append(rng.choice(UNICODE_DIGITS))
        elif q < 0.75:
            out.append(rng.choice('"\'\\ '))
        elif q < 0.85:
            out.append(rng.choice(NONASCII))
        else:
            out.append(rng.choice(LETTERS + PUNCT))
    return ''.join(out)


class Handmade:
    """One string constant as a sequence of atoms (character, escape form)
    cut into literals.  Forms: 'raw', 'simple', ('x'|'X', number of digits,
    upper-case digits)."""

    def __init__(self, rng, s, escapes=None):
        self.value = s
        self.atoms = []
        if escapes is None:
            escapes = rng.choice([0.0, 0.1, 0.4, 1.0])
        for ch in s:
            o = ord(ch)
            can_raw = o >= 32 and ch not in '"\\'
            can_hex = 0 < o <= 0xFFFF
            if can_raw and (rng.random() >= escapes or not can_hex):
                self.atoms.append((ch, 'raw'))
            elif ch in SIMPLE_ESCAPES and (rng.random() < 0.5 or
                                           not can_hex):
                self.atoms.append((ch, 'simple'))
            else:
                nmin = len('%x' % o)
                n = rng.choice([nmin, nmin, 4, rng.randint(nmin, 4)])
                self.atoms.append((ch, (rng.choice('xxX'), n,
                                        rng.random() < 0.5)))
        # a new literal starts in front of these atoms
        n = len(self.atoms)
        self.breaks = set()
        if n > 1 and rng.random() < 0.8:
            k = rng.choice([1, 1, 2, 3, n // 2 + 1])
            self.breaks = set(rng.sample(range(1, n), min(k, n - 1)))
        # inside a literal a short hex escape must not be followed by a hex
        # digit: pad it, or (more often) start a new literal there
        self.padded = set()
        for i in range(n - 1):
            if self.is_short(i) and i + 1 not in self.breaks and \
                    self.text(i + 1)[0] in _HEX:
                if rng.random() < 0.7:
                    self.breaks.add(i + 1)
                else:
                    self.padded.add(i)
        self.seps = {b: rng.choice(LITERAL_SEPARATORS) for b in self.breaks}
        # empty literals are legal members of a constant
        self.empties = set(b for b in self.breaks if rng.random() < 0.08)

    def is_short(self, i, pad=()):
        form = self.atoms[i][1]
        return isinstance(form, tuple) and form[1] < 4 and \
            i not in self.padded and i not in pad

    def text(self, i, pad=()):
        ch, form = self.atoms[i]
        if form == 'raw':
            return ch
        if form == 'simple':
            return SIMPLE_ESCAPES[ch]
        x, n, upper = form
        if i in self.padded or i in pad:
            n = 4
        digits = '%0*x' % (n, ord(ch))
        return '\\' + x + (digits.upper() if upper else digits)

    def category(self, i):
        """What follows the short hex escape i (the mechanism classes)."""
        if i + 1 >= len(self.atoms):
            return 'at-end-of-constant'
        nxt = self.text(i + 1)[0]
        if i + 1 in self.breaks:
            return 'at-end-of-literal.next-literal-starts-with-hex-digit' \
                if nxt in _HEX else 'at-end-of-literal'
        if ord(nxt) > 127 and (nxt.isdigit() or nxt.isdecimal() or
                               nxt.isnumeric()):
            return 'before-non-ascii-digit'
        return 'inside-literal'

    def categories(self):
        return sorted({self.category(i) for i in range(len(self.atoms))
                       if self.is_short(i)})

    def render(self, pad_category=None, pad_all=False):
        pad = set()
        for i in range(len(self.atoms)):
            if self.is_short(i) and (pad_all or
                                     self.category(i) == pad_category):
                pad.add(i)
        out = ['"']
        for i in range(len(self.atoms)):
            if i in self.breaks:
                out.append('"' + self.seps[i])
                if i in self.empties:
                    out.append('""' + self.seps[i])
                out.append('"')
            out.append(self.text(i, pad))
        out.append('"')
        return ''.join(out)

    def canonical(self):
        """The same value as one literal in the form tomof() writes."""
        return '"' + ref_escape(self.value) + '"'


# --------------------------------------------------------------- values ----

def scalar(rng, cimtype, sclass=None):
    """(class tag, value) for a non-NULL scalar of a simple CIM type."""
    if cimtype == 'string':
        return mof_string(rng, sclass)
    if cimtype == 'char16':
        return 'char16', char16(rng)
    if cimtype in cimgen.REAL_TYPES:
        while True:
            v = cimgen.real_value(rng, cimtype, nonfinite=False)
            if math.isfinite(v):    # MOF has no literal for inf/NaN
                return cimtype, v
    return cimtype, cimgen.scalar(rng, cimtype)


def value(rng, cimtype, is_array, null=0.15, tags=None):
    if rng.random() < null:
        return None
    if not is_array:
        tag, v = scalar(rng, cimtype)
        if tags is not None:
            tags.append(tag)
        return v
    out = []
    for _ in range(rng.choice([0, 1, 1, 2, 3, 5])):
        if rng.random() < 0.15:
            out.append(None)
        else:
            tag, v = scalar(rng, cimtype)
            if tags is not None:
                tags.append(tag)
            out.append(v)
    return out


SCOPES = ['CLASS', 'ASSOCIATION', 'INDICATION', 'PROPERTY', 'REFERENCE',
          'METHOD', 'PARAMETER', 'ANY']


def tri(rng):
    return rng.choice([None, True, False])


def qualifier_declaration(rng, qname, cimtype=None, is_array=None, tags=None,
                          null=0.3):
    t = cimtype or rng.choice(SIMPLE_TYPES)
    if is_array is None:
        is_array = rng.random() < 0.3
    v = value(rng, t, is_array, null=null, tags=tags)
    array_size = None
    if is_array and rng.random() < 0.3:
        array_size = rng.randint(max(1, len(v or [])), 12)
    k = rng.randint(1, 4) if rng.random() < 0.9 else 8
    scopes = [(s if rng.random() < 0.7 else s.lower(), True)
              for s in rng.sample(SCOPES, k)]
    # explicit False entries are legal in the object model and simply not
    # written
    for s in SCOPES:
        if s not in [x[0].upper() for x in scopes] and rng.random() < 0.2:
            scopes.append((s, False))
    rng.shuffle(scopes)
    return CIMQualifierDeclaration(
        qname, t, value=v, is_array=is_array, array_size=array_size,
        scopes=scopes, overridable=tri(rng), tosubclass=tri(rng),
        toinstance=tri(rng), translatable=tri(rng))


def special_declarations(rng):
    """The qualifiers the compiler itself interprets, with generated
    flavors."""
    def flv():
        return dict(overridable=tri(rng), tosubclass=tri(rng),
                    toinstance=tri(rng), translatable=tri(rng))
    return [
        CIMQualifierDeclaration('Key', 'boolean', value=False,
                                scopes=[('PROPERTY', True),
                                        ('REFERENCE', True)], **flv()),
        CIMQualifierDeclaration('EmbeddedInstance', 'string', value=None,
                                scopes=[('PROPERTY', True), ('METHOD', True),
                                        ('PARAMETER', True)], **flv()),
        CIMQualifierDeclaration('EmbeddedObject', 'boolean', value=False,
                                scopes=[('PROPERTY', True), ('METHOD', True),
                                        ('PARAMETER', True)], **flv()),
    ]


def qualifiers(rng, pool, maxn=3, tags=None, null=0.04):
    """Qualifier values for one element, drawn from the declaration pool
    (random ones only; the special ones are placed deliberately)."""
    pool = [d for d in pool if d.name.lower() not in SPECIAL_QUALS]
    if not pool:
        return []
    n = rng.choice([0, 0, 1, 1, 2, maxn])
    out = []
    for d in rng.sample(pool, min(n, len(pool))):
        v = value(rng, d.type, d.is_array, null=null, tags=tags)
        # flavors are not written by tomof(); any combination must be
        # harmless
        out.append(CIMQualifier(d.name, v, type=d.type,
                                propagated=tri(rng), overridable=tri(rng),
                                tosubclass=tri(rng), toinstance=tri(rng),
                                translatable=tri(rng)))
    return out


REF_HOSTS = [None, None, None, 'srv1', 'woot.com', '10.11.12.13:5989']
REF_NS = ['root/cimv2', 'root', 'interop', 'root/cimv2/sub']


def ref_value(rng, classname, tags=None, class_paths=0.12):
    """An instance path whose keys are strings (with quotes, backslashes and
    apostrophes - they pass through WBEM-URI escaping and then through MOF
    escaping) and plain integers; URI defects of other key types are C07's
    business.  No '=' in the strings: from_wbem_uri() reads a string key that
    looks like 'Class.key=value' as a reference (documented ambiguity of the
    untyped WBEM URI)."""
    if rng.random() < class_paths:
        # a class path: a reference may hold one (cimvalue(), CIMProperty)
        # and MOF expresses it as the WBEM URI of the class
        if tags is not None:
            tags.append('ref-classpath')
        return CIMClassName(classname, namespace=rng.choice(REF_NS),
                            host=rng.choice(REF_HOSTS))
    kbs = []
    for kn in idents(rng, rng.choice([1, 1, 2, 3]), keywords=0):
        r = rng.random()
        if r < 0.6:
            n = rng.randint(0, 40)
            s = ''.join(rng.choice('"\'\\') if rng.random() < 0.15
                        else rng.choice(LETTERS + ' .:/,')
                        for _ in range(n))
            if tags is not None:
                tags.append('refkey-string')
            kbs.append((kn, s))
        elif r < 0.85:
            kbs.append((kn, rng.choice([0, 1, 42, -7, 2 ** 40])))
        else:
            kbs.append((kn, rng.random() < 0.5))
    ns = rng.choice(REF_NS)
    return CIMInstanceName(classname, kbs, namespace=ns,
                           host=rng.choice(REF_HOSTS))


def dep_class(rng, cname, taken):
    """A small class without qualifiers and references, usable as reference
    target, superclass and embedded-instance class."""
    props = []
    for pn in idents(rng, rng.choice([1, 2, 3, 4]), taken=set(taken)):
        t = rng.choice(SIMPLE_TYPES)
        is_array = rng.random() < 0.25
        props.append(CIMProperty(pn, None, type=t, is_array=is_array))
    return CIMClass(cname, properties=props)


def cimclass(rng, cname, pool, deps, tags=None):
    """A class declaration over the qualifier declarations `pool` and the
    dependency classes `deps` (list of CIMClass)."""
    depnames = [d.classname for d in deps]
    superclass = rng.choice(depnames) if depnames and rng.random() < 0.3 \
        else None
    taken = set()
    if superclass:
        taken = {p.lower() for d in deps if d.classname == superclass
                 for p in d.properties}
    has = {d.name.lower() for d in pool}
    props = []
    names = idents(rng, rng.choice([0, 1, 2, 3, 4, 6, 9]), taken)
    for k, pn in enumerate(names):
        quals = qualifiers(rng, pool, tags=tags)
        kw = {}
        if rng.random() < 0.3:
            # not expressible in MOF and ignored by tomof()
            kw['class_origin'] = rng.choice([cname, 'Other'])
            kw['propagated'] = tri(rng)
        r = rng.random()
        if r < 0.12 and (depnames or True):
            rc = rng.choice(depnames + [cname])
            v = None
            if rng.random() < 0.4:
                v = ref_value(rng, rc, tags)
            if 'key' in has and rng.random() < 0.3:
                quals.insert(0, CIMQualifier('Key', True))
            props.append(CIMProperty(pn, v, type='reference',
                                     reference_class=rc, qualifiers=quals,
                                     **kw))
            continue
        if r < 0.24 and depnames and 'embeddedinstance' in has:
            # embedded object property (declaration: a string with the
            # qualifier; default NULL)
            is_array = rng.random() < 0.3
            if rng.random() < 0.6:
                quals.append(CIMQualifier('EmbeddedInstance',
                                          rng.choice(depnames)))
                emb = 'instance'
            else:
                quals.append(CIMQualifier('EmbeddedObject', True))
                emb = 'object'
            props.append(CIMProperty(pn, None, type='string',
                                     is_array=is_array,
                                     embedded_object=rng.choice([emb, None]),
                                     qualifiers=quals, **kw))
            continue
        t = rng.choice(SIMPLE_TYPES)
        is_array = rng.random() < 0.35
        v = value(rng, t, is_array, null=0.35, tags=tags)
        if is_array and rng.random() < 0.3:
            kw['array_size'] = rng.randint(max(1, len(v or [])), 12)
        if k == 0 and 'key' in has and not is_array and rng.random() < 0.6:
            quals.insert(0, CIMQualifier('Key', True))
        props.append(CIMProperty(pn, v, type=t, is_array=is_array,
                                 qualifiers=quals, **kw))
    meths = []
    for mn in idents(rng, rng.choice([0, 0, 1, 2]), taken):
        params = []
        for an in idents(rng, rng.choice([0, 1, 2, 3, 5])):
            is_array = rng.random() < 0.35
            asz = rng.randint(1, 9) if is_array and rng.random() < 0.3 \
                else None
            if rng.random() < 0.2:
                params.append(CIMParameter(
                    an, 'reference', is_array=is_array, array_size=asz,
                    reference_class=rng.choice(depnames + [cname]),
                    qualifiers=qualifiers(rng, pool, 2, tags)))
            else:
                params.append(CIMParameter(
                    an, rng.choice(SIMPLE_TYPES), is_array=is_array,
                    array_size=asz,
                    qualifiers=qualifiers(rng, pool, 2, tags)))
        meths.append(CIMMethod(mn, return_type=rng.choice(SIMPLE_TYPES),
                               parameters=params,
                               qualifiers=qualifiers(rng, pool, 2, tags),
                               class_origin=rng.choice([None, cname]),
                               propagated=tri(rng)))
    return CIMClass(cname, properties=props, methods=meths,
                    superclass=superclass,
                    qualifiers=qualifiers(rng, pool, tags=tags))


def embedded_instance(rng, dep, tags=None):
    props = []
    first = next(iter(dep.properties))
    for p in dep.properties.values():
        # (at least one property: MOF has no empty instance declaration)
        if rng.random() < 0.75 or p.name == first:
            v = value(rng, p.type, p.is_array, null=0.2, tags=tags)
            props.append(CIMProperty(p.name, v, type=p.type,
                                     is_array=p.is_array))
    return CIMInstance(dep.classname, properties=props)


def is_embedded_prop(cprop):
    return 'embeddedinstance' in [q.lower() for q in cprop.qualifiers] or \
        'embeddedobject' in [q.lower() for q in cprop.qualifiers]


def instance(rng, cls, deps, tags=None):
    """An instance of the generated class `cls` (own properties only)."""
    depmap = {d.classname.lower(): d for d in deps}
    props = []
    for p in cls.properties.values():
        # (a key property is always given a value: an instance with a NULL
        # or missing key is not a valid instance)
        is_key = 'key' in [q.lower() for q in p.qualifiers]
        if rng.random() < 0.2 and not is_key:
            continue
        if p.type == 'reference':
            # (a key cannot be a class path: keybindings do not hold one)
            v = None if rng.random() < 0.2 and not is_key else \
                ref_value(rng, p.reference_class, tags,
                          class_paths=0 if is_key else 0.2)
            props.append(CIMProperty(p.name, v, type='reference',
                                     reference_class=p.reference_class))
            continue
        if is_embedded_prop(p):
            q = p.qualifiers.get('EmbeddedInstance')
            dep = depmap.get(q.value.lower()) if q is not None else \
                rng.choice(deps)
            kind = 'instance' if q is not None else 'object'
            if rng.random() < 0.15:
                v = None
            elif p.is_array:
                # like every other array: any length including 0, NULL
                # entries
                v = [None if rng.random() < 0.08 else
                     embedded_instance(rng, dep, tags)
                     for _ in range(rng.choice([0, 1, 1, 2, 3]))]
                if tags is not None:
                    if not v:
                        tags.append('embedded-array-empty')
                    if any(x is None for x in v):
                        tags.append('embedded-array-null-entry')
            else:
                v = embedded_instance(rng, dep, tags)
            if tags is not None and v is not None:
                tags.append('embedded')
            props.append(CIMProperty(p.name, v, type='string',
                                     is_array=p.is_array,
                                     embedded_object=kind))
            continue
        v = value(rng, p.type, p.is_array, null=0 if is_key else 0.15,
                  tags=tags)
        props.append(CIMProperty(p.name, v, type=p.type,
                                 is_array=p.is_array))
    inst = CIMInstance(cls.classname, properties=props)
    if rng.random() < 0.3:
        # documented: neither qualifiers nor the path are written
        inst.path = CIMInstanceName(cls.classname, {'x': 'y'},
                                    namespace='root/other')
    return inst


# ---------------------------------------------------------- projections ----
# exactly what the statement of C08 lists: names, types, array shape,
# default/property values, qualifier values, and the flavors tomof() writes

def pv(v, t=None):
    """Projection of a value (t: its CIM type, where the python type does
    not tell it)."""
    if v is None:
        return None
    if t == 'char16' and isinstance(v, str):
        return ('char16', str(v))
    if isinstance(v, bool):
        return ('bool', v)
    if isinstance(v, CIMInt):
        return (type(v).__name__, int(v))
    if isinstance(v, CIMFloat):
        return (type(v).__name__, fbits(float(v), isinstance(v, Real32)))
    if isinstance(v, int):
        return ('int', v)
    if isinstance(v, float):
        return ('float', fbits(v))
    if isinstance(v, str):
        return ('str', str(v))
    if isinstance(v, CIMDateTime):
        return ('datetime', str(v))
    if isinstance(v, (list, tuple)):
        return ('list',) + tuple(pv(x, t) for x in v)
    if isinstance(v, CIMInstanceName):
        # (the order of keys in a path carries no meaning; a WBEM URI is
        # written in sorted order)
        return ('ref', v.classname, v.namespace, v.host,
                ('keys',) + tuple(('key', k, pkey(x)) for k, x in sorted(
                    v.keybindings.items(), key=lambda kv: kv[0].lower())))
    if isinstance(v, CIMClassName):
        return ('classref', v.classname, v.namespace, v.host)
    if isinstance(v, CIMInstance):
        return p_instance(v)
    return ('other', type(v).__name__, repr(v))


def pkey(x):
    # a WBEM URI carries no integer width: integers compare by value
    if isinstance(x, bool):
        return ('bool', x)
    if isinstance(x, int):
        return ('int', int(x))
    return pv(x)


def p_quals(quals):
    return ('quals',) + tuple(('qualifier', q.name, q.type, pv(q.value, q.type))
                              for q in quals.values())


def p_qualdecl(d, written_only=None):
    """written_only: the original declaration, whose None flavors are not
    written by tomof() and therefore not compared."""
    def flv(name):
        v = getattr(d, name)
        if written_only is not None and getattr(written_only, name) is None:
            return '*'
        return v
    tr = d.translatable
    ref = written_only if written_only is not None else d
    return ('qualdecl', d.name, d.type, d.is_array, d.array_size,
            ('value', pv(d.value, d.type)),
            ('scopes',) + tuple(sorted(k.upper() for k, v in d.scopes.items()
                                       if v)),
            ('overridable', flv('overridable')),
            ('tosubclass', flv('tosubclass')),
            # written only when true
            ('translatable', bool(tr) if ref.translatable else '*'))


def p_property_decl(p):
    return ('property', p.name, p.type, p.is_array, p.array_size,
            p.reference_class, ('default', pv(p.value, p.type)),
            p_quals(p.qualifiers))


def p_parameter(p):
    return ('parameter', p.name, p.type, p.is_array, p.array_size,
            p.reference_class, p_quals(p.qualifiers))


def p_method(m):
    return ('method', m.name, m.return_type,
            ('params',) + tuple(p_parameter(p)
                                for p in m.parameters.values()),
            p_quals(m.qualifiers))


def p_class(c):
    return ('class', c.classname, c.superclass, p_quals(c.qualifiers),
            ('props',) + tuple(p_property_decl(p)
                               for p in c.properties.values()),
            ('methods',) + tuple(p_method(m) for m in c.methods.values()))


def p_instance(i):
    return ('instance', i.classname,
            ('props',) + tuple(('property', p.name, p.type, p.is_array,
                                ('value', pv(p.value, p.type)))
                               for p in i.properties.values()))


def project(kind, obj, original=None):
    if kind == 'qualifierdecl':
        return p_qualdecl(obj, original)
    if kind == 'class':
        return p_class(obj)
    return p_instance(obj)


def pdiff(a, b, path='', out=None, limit=8):
    """Leaf differences of two projections: list of (path, a, b)."""
    if out is None:
        out = []
    if a == b or len(out) >= limit:
        return out
    if isinstance(a, tuple) and isinstance(b, tuple) and a and b and \
            isinstance(a[0], str) and a[0] == b[0] and len(a) == len(b) and \
            a[0] not in LEAF_TAGS:
        tag = a[0]
        if tag in ('property', 'qualifier', 'parameter', 'method', 'class',
                   'instance', 'qualdecl', 'key') and a[1] == b[1]:
            tag = '%s:%s' % (tag, a[1])
        for x, y in zip(a[1:], b[1:]):
            pdiff(x, y, path + '/' + tag, out, limit)
        return out
    out.append((path, a, b))
    return out


LEAF_TAGS = {'str', 'char16', 'bool', 'int', 'float', 'datetime', 'Uint8', 'Uint16',
             'Uint32', 'Uint64', 'Sint8', 'Sint16', 'Sint32', 'Sint64',
             'Real32', 'Real64', 'other'}


def generic_path(path):
    """Path with the generated names removed (for mechanism keys)."""
    return re.sub(r':[^/]*', '', path)


# ------------------------------------------------- rewriting of objects ----

def map_strings(v, f):
    """Copy of a value with f applied to every string in it (recursively
    through lists, reference keys and embedded instances)."""
    if isinstance(v, str):
        return f(v)
    if isinstance(v, list):
        return [map_strings(x, f) for x in v]
    if isinstance(v, CIMInstanceName):
        c = v.copy()
        for k in list(c.keybindings):
            c.keybindings[k] = map_strings(c.keybindings[k], f)
        return c
    if isinstance(v, CIMInstance):
        c = copy.deepcopy(v)
        for p in c.properties.values():
            if p.type == 'char16':
                p.value = None if not isinstance(p.value, list) else []
            else:
                p.value = map_strings(p.value, f)
        return c
    return v


def rewrite(kind, obj, f):
    """Copy of the object under test with f applied to all string/char16
    values (names are left alone)."""
    o = copy.deepcopy(obj)

    def quals(qd):
        for q in qd.values():
            if q.type in ('string',):
                q.value = map_strings(q.value, f)
    if kind == 'qualifierdecl':
        if o.type == 'string':
            o.value = map_strings(o.value, f)
        return o
    if kind == 'class':
        quals(o.qualifiers)
        for p in o.properties.values():
            quals(p.qualifiers)
            if p.type in ('string', 'reference'):
                p.value = map_strings(p.value, f)
        for m in o.methods.values():
            quals(m.qualifiers)
            for a in m.parameters.values():
                quals(a.qualifiers)
        return o
    for p in o.properties.values():
        if p.type in ('string', 'reference'):
            p.value = map_strings(p.value, f)
    return o


def without_class_paths(kind, obj):
    """Copy with every class path held by a reference replaced by an
    instance path of that class; None if there is none."""
    o = copy.deepcopy(obj)
    n = 0
    for p in o.properties.values():
        if isinstance(p.value, CIMClassName):
            p.value = CIMInstanceName(p.value.classname, {'k': 1},
                                      namespace=p.value.namespace,
                                      host=p.value.host)
            n += 1
    return o if n else None


def without_null_embedded_entries(kind, obj):
    """Copy of an instance with the NULL entries of its embedded-object
    arrays removed; None if there is none."""
    if kind != 'instance':
        return None
    o = copy.deepcopy(obj)
    n = 0
    for p in o.properties.values():
        if p.embedded_object and isinstance(p.value, list) and \
                any(x is None for x in p.value):
            p.value = [x for x in p.value if x is not None]
            n += 1
    return o if n else None
