"""sys.monitoring based reach counters and global invariant hooks.

Reach counters prove that the deciding code of a property actually ran in a
workload (and how often); a check whose required counters stay at zero is
reported as inconclusive, never as "held".

Python 3.12 sys.monitoring: PY_START events restricted to the code objects of
the named functions (set_local_events), so the cost is paid only there.
"""
import importlib
import sys

mon = getattr(sys, 'monitoring', None)
TOOL_REACH = 3
TOOL_INV = 4
TOOL_LINE = 2


def resolve(spec):
    """'pkg.module:Class.func' -> function object."""
    modname, qual = spec.split(':')
    obj = importlib.import_module(modname)
    for part in qual.split('.'):
        obj = getattr(obj, part)
    obj = getattr(obj, '__func__', obj)
    obj = getattr(obj, 'fget', obj) if isinstance(obj, property) else obj
    while hasattr(obj, '__wrapped__'):
        obj = obj.__wrapped__
    return obj


class Reach:
    """Counts calls of named functions of the code under test."""

    def __init__(self, specs):
        self.counts = {}
        self.code2name = {}
        self.active = False
        self.missing = []
        if mon is None:
            return
        for spec in specs:
            try:
                fn = resolve(spec)
                code = fn.__code__
            except (AttributeError, ImportError):
                self.missing.append(spec)
                continue
            short = spec.split(':')[1]
            self.code2name[code] = short
            self.counts[short] = 0

    def start(self):
        if mon is None or not self.code2name:
            return self
        try:
            mon.use_tool_id(TOOL_REACH, 'vf-reach')
        except ValueError:
            pass
        mon.register_callback(TOOL_REACH, mon.events.PY_START, self._on_start)
        for code in self.code2name:
            mon.set_local_events(TOOL_REACH, code, mon.events.PY_START)
        self.active = True
        return self

    def _on_start(self, code, offset):
        name = self.code2name.get(code)
        if name is not None:
            self.counts[name] += 1

    def stop(self):
        if self.active:
            for code in self.code2name:
                mon.set_local_events(TOOL_REACH, code, 0)
            mon.register_callback(TOOL_REACH, mon.events.PY_START, None)
            try:
                mon.free_tool_id(TOOL_REACH)
            except ValueError:
                pass
            self.active = False

    def flush(self, ctx):
        """Add the counters to the worker context's event table."""
        for k, v in self.counts.items():
            if v:
                ctx.count(k, v)
            self.counts[k] = 0
        for spec in self.missing:
            ctx.extra.setdefault('reach_unresolved', [])
            if spec not in ctx.extra['reach_unresolved']:
                ctx.extra['reach_unresolved'].append(spec)


class CIMIntInvariant:
    """Global invariant riding along every workload: no CIMInt object leaves
    __new__ with a value outside [minvalue, maxvalue] while
    config.ENFORCE_INTEGER_RANGE is true."""

    def __init__(self, ctx=None):
        self.checked = 0
        self.bad = []
        self.active = False
        self.ctx = ctx      # to attribute a bad object to the running case

    def start(self):
        if mon is None:
            return self
        from pywbem import CIMInt
        self.code = CIMInt.__new__.__code__
        try:
            mon.use_tool_id(TOOL_INV, 'vf-inv')
        except ValueError:
            pass
        mon.register_callback(TOOL_INV, mon.events.PY_RETURN, self._on_return)
        mon.set_local_events(TOOL_INV, self.code, mon.events.PY_RETURN)
        self.active = True
        return self

    def _on_return(self, code, offset, retval):
        if code is not self.code:
            return
        self.checked += 1
        try:
            from pywbem import config
            if not config.ENFORCE_INTEGER_RANGE:
                return
            cls = type(retval)
            lo, hi = cls.minvalue, cls.maxvalue
            if lo is None or hi is None:
                return
            v = int(retval)
            if not lo <= v <= hi:
                if len(self.bad) < 5:
                    self.bad.append(('%s(%d)' % (cls.__name__, v),
                                     getattr(self.ctx, 'case_index', None)))
        except Exception:  # pylint: disable=broad-except
            pass

    def flush(self, ctx):
        if self.checked:
            ctx.count('inv:CIMInt.__new__.in-range', self.checked)
            self.checked = 0
        for b, case in self.bad:
            now = ctx.case_index
            if case is not None:
                ctx.case_index = case     # the case that made the object
            try:
                ctx.violation('invariant.CIMInt.out-of-range-object',
                              'a CIM integer object holds a value outside '
                              'the range of its type: %s' % b, {'value': b})
            finally:
                ctx.case_index = now
        self.bad = []

    def stop(self):
        if self.active:
            mon.set_local_events(TOOL_INV, self.code, 0)
            mon.register_callback(TOOL_INV, mon.events.PY_RETURN, None)
            try:
                mon.free_tool_id(TOOL_INV)
            except ValueError:
                pass
            self.active = False
