"""Generated mock-server repositories for the pull/Iter checks (C14, C15).

A *recipe* is a plain dict drawn from the case rng; build(recipe) constructs a
FakedWBEMConnection whose repository is a deterministic function of the recipe
(so that an identical server can be rebuilt at any time).  Every instance of
the repository has a unique key, so an object found in a response identifies
itself (ident()).

Schema per namespace (no MOF compiler involved, classes are added as objects):

    PG_Base {[key] string id; uint32 n; string tag;}
      PG_Sub1 : PG_Base {string s1;}
        PG_Sub2 : PG_Sub1 {string s2;}
    PG_Empty {[key] string id;}                      (never has instances)
    PG_Hub  {[key] string id;}
    [Association] PG_Link {[key] PG_Hub REF hub;  [key] PG_Base REF item; uint32 w;}
    [Association] PG_Tie  {[key] PG_Hub REF left; [key] PG_Base REF right;}
"""
import re
import warnings

import pywbem
import pywbem_mock
from pywbem import (CIMClass, CIMProperty, CIMQualifier, CIMInstance,
                    CIMInstanceName, CIMQualifierDeclaration, Uint32, CIMError)

DEFAULT_NS = 'root/cimv2'
SECOND_NS = 'root/pg2'
ITEM_CLASSES = ('PG_Base', 'PG_Sub1', 'PG_Sub2')

HOSTILE_IDS = ['with space', 'quo"te', "apo'strophe", 'sl/ash:colon', 'a=b,c',
               'umläut', '中文', 'back\\slash', 'dot.ted', '#hash',
               '  lead', '%41', '&amp;', '<x>']


def _key():
    return {'Key': CIMQualifier('Key', True, type='boolean')}


def schema():
    """Fresh schema objects (qualifier declarations, then classes in
    superclass-first order)."""
    quals = [
        CIMQualifierDeclaration('Key', 'boolean', value=False,
                                scopes={'PROPERTY': True, 'REFERENCE': True},
                                overridable=False, tosubclass=True),
        CIMQualifierDeclaration('Association', 'boolean', value=False,
                                scopes={'ASSOCIATION': True},
                                overridable=False, tosubclass=True),
    ]

    def sprop(name, key=False, typ='string'):
        return CIMProperty(name, None, type=typ,
                           qualifiers=_key() if key else None)

    def rprop(name, cls):
        return CIMProperty(name, None, type='reference', reference_class=cls,
                           qualifiers=_key())
    assoc = {'Association': CIMQualifier('Association', True, type='boolean')}
    classes = [
        CIMClass('PG_Base', properties=[sprop('id', True),
                                        sprop('n', typ='uint32'),
                                        sprop('tag')]),
        CIMClass('PG_Sub1', superclass='PG_Base', properties=[sprop('s1')]),
        CIMClass('PG_Sub2', superclass='PG_Sub1', properties=[sprop('s2')]),
        CIMClass('PG_Empty', properties=[sprop('id', True)]),
        CIMClass('PG_Hub', properties=[sprop('id', True)]),
        CIMClass('PG_Link', qualifiers=assoc,
                 properties=[rprop('hub', 'PG_Hub'), rprop('item', 'PG_Base'),
                             sprop('w', typ='uint32')]),
        CIMClass('PG_Tie', qualifiers=dict(assoc),
                 properties=[rprop('left', 'PG_Hub'),
                             rprop('right', 'PG_Base')]),
    ]
    return quals, classes


def gen_recipe(rng, max_items=40, second_ns=0.35, big=0.04, hostile=0.15):
    """Draw a repository recipe.  Sizes are biased to the interesting small
    numbers (0, 1, 2) and, rarely, beyond the server default batch size of
    100 objects."""
    nss = [DEFAULT_NS]
    if rng.random() < second_ns:
        nss.append(SECOND_NS)
    rec = {'namespaces': nss, 'ns': {}}
    serial = 0
    for ns in nss:
        r = rng.random()
        if r < big:
            total = rng.randint(101, 130)
        elif r < 0.15:
            total = rng.choice([0, 1, 2, 3])
        elif r < 0.55:
            total = rng.randint(2, min(12, max_items))
        else:
            total = rng.randint(2, max_items)
        items = []
        for _ in range(total):
            cls = rng.choice(ITEM_CLASSES)
            if rng.random() < hostile:
                iid = '%s~%d' % (rng.choice(HOSTILE_IDS), serial)
            else:
                iid = '%s%d' % (rng.choice(['i', 'I', 'x']), serial)
            serial += 1
            items.append((cls, iid))
        hubs = []
        for h in range(rng.choice([1, 1, 1, 2, 2, 3])):
            if not items:
                links, ties = [], []
            else:
                k = rng.choice([0, 1, 2, len(items) // 2, len(items),
                                len(items), rng.randint(0, len(items)),
                                rng.randint(0, len(items))])
                links = sorted(rng.sample(range(len(items)),
                                          min(k, len(items))))
                k2 = rng.choice([0, 0, 1, rng.randint(0, min(len(items), 12))])
                ties = sorted(rng.sample(range(len(items)), k2))
            hubs.append({'id': 'h%d' % serial, 'links': links, 'ties': ties})
            serial += 1
        rec['ns'][ns] = {'items': items, 'hubs': hubs}
    return rec


class Server:
    """A FakedWBEMConnection built from a recipe, plus the index the checks
    need (which paths exist where)."""

    def __init__(self, recipe, use_pull_operations=None, disable_pull=False,
                 url=None):
        warnings.simplefilter('ignore')
        self.recipe = recipe
        self.conn = pywbem_mock.FakedWBEMConnection(
            default_namespace=DEFAULT_NS,
            use_pull_operations=use_pull_operations,
            disable_pull_operations=disable_pull, url=url)
        self.item_paths = {}      # ns -> [CIMInstanceName]
        self.hub_paths = {}       # ns -> [CIMInstanceName]
        self.removed = set()
        conn = self.conn
        for ns in recipe['namespaces']:
            if ns != DEFAULT_NS:
                conn.add_namespace(ns)
            quals, classes = schema()
            conn.add_cimobjects(quals, namespace=ns)
            conn.add_cimobjects(classes, namespace=ns)
            objs = []
            ipaths = []
            for n, (cls, iid) in enumerate(recipe['ns'][ns]['items']):
                path = CIMInstanceName(cls, {'id': iid}, namespace=ns)
                props = {'id': iid, 'n': Uint32(n), 'tag': 't%d' % (n % 3)}
                if cls != 'PG_Base':
                    props['s1'] = 's1-%d' % n
                if cls == 'PG_Sub2':
                    props['s2'] = 's2-%d' % n
                objs.append(CIMInstance(cls, props, path=path))
                ipaths.append(path)
            hpaths = []
            for hub in recipe['ns'][ns]['hubs']:
                hp = CIMInstanceName('PG_Hub', {'id': hub['id']}, namespace=ns)
                hpaths.append(hp)
                objs.append(CIMInstance('PG_Hub', {'id': hub['id']}, path=hp))
                for k in hub['links']:
                    kb = {'hub': hp.copy(), 'item': ipaths[k].copy()}
                    lp = CIMInstanceName('PG_Link', kb, namespace=ns)
                    objs.append(CIMInstance(
                        'PG_Link', {'hub': hp.copy(), 'item': ipaths[k].copy(),
                                    'w': Uint32(k)}, path=lp))
                for k in hub['ties']:
                    kb = {'left': hp.copy(), 'right': ipaths[k].copy()}
                    tp = CIMInstanceName('PG_Tie', kb, namespace=ns)
                    objs.append(CIMInstance(
                        'PG_Tie', {'left': hp.copy(),
                                   'right': ipaths[k].copy()}, path=tp))
            if objs:
                conn.add_cimobjects(objs, namespace=ns)
            self.item_paths[ns] = ipaths
            self.hub_paths[ns] = hpaths

    # -- server-side switches ------------------------------------------------
    def set_pull_disabled(self, flag):
        self.conn.disable_pull_operations = bool(flag)

    def table(self):
        """The server's enumeration context table (leak oracle named by the
        property)."""
        # pylint: disable=protected-access
        return self.conn._mainprovider.enumeration_contexts

    def empty_and_remove_namespace(self, ns):
        """Delete everything in ns and remove the namespace.  Returns True
        when the namespace is gone."""
        conn = self.conn
        try:
            for cls in ('PG_Link', 'PG_Tie', 'PG_Hub', 'PG_Empty', 'PG_Base'):
                for p in conn.EnumerateInstanceNames(cls, namespace=ns):
                    conn.DeleteInstance(p)
            for cls in ('PG_Link', 'PG_Tie', 'PG_Hub', 'PG_Empty', 'PG_Sub2',
                        'PG_Sub1', 'PG_Base'):
                conn.DeleteClass(cls, namespace=ns)
            for q in ('Key', 'Association'):
                conn.DeleteQualifier(q, namespace=ns)
            conn.remove_namespace(ns)
        except pywbem.Error:
            return False
        self.removed.add(ns)
        return True

    def stub_query(self):
        """The mock's ExecQuery provider method is unimplemented (always
        CIM_ERR_NOT_SUPPORTED), which makes OpenQueryInstances unreachable
        beyond its parameter checks.  This installs a harness query engine
        ("SELECT * FROM <class>", instances without path as documented for
        query results) on this server object only, so that the
        OpenQueryInstances/_openquery_response/PullInstances code can run at
        all.  Observations made in this mode are reported as *latent*, never
        as violations of the shipped mock."""
        mp = self.conn._mainprovider  # pylint: disable=protected-access

        def exec_query(namespace, QueryLanguage, Query):
            # pylint: disable=invalid-name,unused-argument
            mp.validate_namespace(namespace)
            m = re.search(r' FROM +(\w+)', Query)
            if not m:
                raise CIMError(pywbem.CIM_ERR_INVALID_QUERY, 'no FROM')
            insts = mp.EnumerateInstances(namespace, m.group(1))
            out = []
            for inst in insts:
                c = inst.copy()
                c.path = None
                out.append(c)
            return out
        mp.ExecQuery = exec_query


def ident(obj):
    """Canonical identity of a delivered object: creation class, key bindings
    (recursively for reference keys) and namespace; host is ignored, names are
    case-folded.  Instances without a path (query results) are identified by
    class and their 'id' property."""
    if isinstance(obj, CIMInstance):
        if obj.path is None:
            v = obj.properties.get('id')
            return ('nopath', obj.classname.lower(),
                    v.value if v is not None else None)
        obj = obj.path
    if isinstance(obj, CIMInstanceName):
        kbs = tuple(sorted((k.lower(), ident(v))
                           for k, v in obj.keybindings.items()))
        ns = obj.namespace.lower() if obj.namespace is not None else None
        return (obj.classname.lower(), kbs, ns)
    return ('v', type(obj).__name__, obj)
