"""A generated mock repository used by the transport-based checks (C02, C03,
C04, C19): classes with properties of every CIM type, a subclass, a second
keyed class, an association, qualifier declarations, echo methods for every
parameter type, and randomly valued instances.  The same recipe (rng) builds
identical repositories, so two copies can be compared after a call sequence.
"""
import warnings

import pywbem
import pywbem_mock
from pywbem import (CIMInstance, CIMInstanceName, CIMClassName, CIMProperty,
                    CIMParameter, Uint32)

from . import cimgen

TYPES = cimgen.SIMPLE_TYPES

QUALS = """
Qualifier Key : boolean = false, Scope(property, reference), Flavor(DisableOverride, ToSubclass);
Qualifier Association : boolean = false, Scope(association), Flavor(DisableOverride, ToSubclass);
Qualifier Indication : boolean = false, Scope(class, indication), Flavor(DisableOverride, ToSubclass);
Qualifier Description : string = null, Scope(any), Flavor(EnableOverride, ToSubclass, Translatable);
Qualifier In : boolean = true, Scope(parameter), Flavor(DisableOverride, ToSubclass);
Qualifier Out : boolean = false, Scope(parameter), Flavor(DisableOverride, ToSubclass);
Qualifier Static : boolean = false, Scope(property, method), Flavor(DisableOverride, ToSubclass);
Qualifier Override : string = null, Scope(property, reference, method), Flavor(EnableOverride, Restricted);
Qualifier EmbeddedInstance : string = null, Scope(property, method, parameter), Flavor(EnableOverride, ToSubclass);
Qualifier EmbeddedObject : boolean = false, Scope(property, method, parameter), Flavor(DisableOverride, ToSubclass);
Qualifier MaxLen : uint32 = null, Scope(property, method, parameter), Flavor(EnableOverride, ToSubclass);
"""


def _mof():
    props = []
    meths = []
    for t in TYPES:
        props.append('    %s P_%s;' % (t, t))
        props.append('    %s A_%s[];' % (t, t))
        meths.append(
            '    [Static] %s Echo_%s([In] %s V, [In] %s VA[], '
            '[In(false), Out] %s OV, [In(false), Out] %s OVA[]);'
            % (t, t, t, t, t, t))
    meths.append(
        '    [Static] uint32 Echo_reference([In] VF_Other REF V, '
        '[In] VF_Other REF VA[], [In(false), Out] VF_Other REF OV, '
        '[In(false), Out] VF_Other REF OVA[]);')
    meths.append(
        '    [Static] uint32 Echo_embedded('
        '[In, EmbeddedInstance("VF_Other")] string V, '
        '[In, EmbeddedInstance("VF_Other")] string VA[], '
        '[In(false), Out, EmbeddedInstance("VF_Other")] string OV, '
        '[In(false), Out, EmbeddedInstance("VF_Other")] string OVA[]);')
    meths.append('    uint32 InstMeth([In] string S, '
                 '[In(false), Out] string OS);')
    return QUALS + """
    [Description ("second keyed class")]
class VF_Other {
    [Key] uint32 N;
    [Key] string S;
    string Note;
};

    [Description ("base class with a property of every CIM type")]
class VF_Base {
    [Key] string Id;
%s
    [EmbeddedInstance ("VF_Other")] string EI;
    [EmbeddedObject] string EO;
    [EmbeddedInstance ("VF_Other")] string EIA[];
%s
};

class VF_Sub : VF_Base {
    string Extra;
    [Description ("a sub array")] uint16 SubArr[];
};

    [Association]
class VF_Link {
    [Key] VF_Base REF Left;
    [Key] VF_Other REF Right;
    string Note;
};
""" % ('\n'.join(props), '\n'.join(meths))


MOF = _mof()


class EchoProvider(pywbem_mock.MethodProvider):
    """Returns its input parameters as output parameters; the return value is
    V for the typed Echo_<type> methods, 0 otherwise."""

    provider_classnames = 'VF_Base'

    def InvokeMethod(self, methodname, localobject, params):
        out = []
        v = params['V'].value if 'V' in params else None
        va = params['VA'].value if 'VA' in params else None
        low = methodname.lower()
        if low == 'instmeth':
            s = params['S'].value if 'S' in params else None
            return (Uint32(0), [CIMParameter('OS', 'string', value=s)])
        t = methodname.split('_', 1)[1]
        if t == 'reference':
            out.append(CIMParameter('OV', 'reference', value=v))
            out.append(CIMParameter('OVA', 'reference', value=va,
                                    is_array=True))
            return (Uint32(0), out)
        if t == 'embedded':
            out.append(CIMParameter('OV', 'string', value=v,
                                    embedded_object='instance'))
            out.append(CIMParameter('OVA', 'string', value=va, is_array=True,
                                    embedded_object='instance'))
            return (Uint32(0), out)
        out.append(CIMParameter('OV', t, value=v))
        out.append(CIMParameter('OVA', t, value=va, is_array=True))
        return (v, out)


NAMESPACES = ['root/cimv2', 'root/vf/deep']


def build(rng, n_inst=None, namespaces=None, url='http://vf-mock:5988'):
    """-> (FakedWBEMConnection, info dict)"""
    warnings.simplefilter('ignore')
    namespaces = namespaces or NAMESPACES[:rng.choice([1, 2])]
    conn = pywbem_mock.FakedWBEMConnection(
        default_namespace=namespaces[0], url=url)
    info = {'namespaces': namespaces, 'base': {}, 'other': {}, 'link': {}}
    for ns in namespaces:
        if ns != namespaces[0]:
            conn.add_namespace(ns)
        conn.compile_mof_string(MOF, namespace=ns)
        conn.register_provider(EchoProvider(conn.cimrepository),
                               namespaces=ns)
        others, bases, links = [], [], []
        n_o = rng.randint(1, 4) if n_inst is None else n_inst
        for k in range(n_o):
            inst = CIMInstance('VF_Other', properties=[
                ('N', Uint32(k)), ('S', 's%d' % k),
                ('Note', cimgen.string(rng))])
            others.append(conn.CreateInstance(inst, namespace=ns))
        n_b = rng.randint(1, 5) if n_inst is None else n_inst
        for k in range(n_b):
            cls = rng.choice(['VF_Base', 'VF_Base', 'VF_Sub'])
            props = [('Id', 'id%d' % k)]
            for t in TYPES:
                if rng.random() < 0.5:
                    props.append(CIMProperty(
                        'P_' + t, cimgen.value(rng, t, False, null=0.1),
                        type=t))
                if rng.random() < 0.3:
                    props.append(CIMProperty(
                        'A_' + t, cimgen.value(rng, t, True, null=0.1,
                                               nulls=False),
                        type=t, is_array=True))
            if rng.random() < 0.3:
                emb = CIMInstance('VF_Other', properties=[
                    ('N', Uint32(7)), ('S', cimgen.string(rng))])
                props.append(CIMProperty('EI', emb,
                                         embedded_object='instance'))
            if rng.random() < 0.3:
                props.append(CIMProperty(
                    'EIA', [CIMInstance('VF_Other', properties=[
                        ('N', Uint32(j)), ('S', cimgen.string(rng))])
                        for j in range(rng.choice([0, 0, 1, 2]))],
                    type='string', is_array=True,
                    embedded_object='instance'))
            if cls == 'VF_Sub' and rng.random() < 0.7:
                props.append(('Extra', cimgen.string(rng)))
            inst = CIMInstance(cls, properties=props)
            bases.append(conn.CreateInstance(inst, namespace=ns))
        for b in bases:
            for o in others:
                if rng.random() < 0.4:
                    inst = CIMInstance('VF_Link', properties=[
                        CIMProperty('Left', b, type='reference',
                                    reference_class='VF_Base'),
                        CIMProperty('Right', o, type='reference',
                                    reference_class='VF_Other'),
                        ('Note', 'l')])
                    links.append(conn.CreateInstance(inst, namespace=ns))
        info['base'][ns] = bases
        info['other'][ns] = others
        info['link'][ns] = links
    return conn, info
