#!/venv/bin/python
"""Regenerates the seeded-changes table of DESIGN.md (between the markers
<!-- SEEDED-TABLE-BEGIN --> and <!-- SEEDED-TABLE-END -->) from seeded/*/meta.json."""
import glob, json, os, re
HERE = os.path.dirname(os.path.dirname(os.path.abspath(__file__)))
rows = []
for mf in sorted(glob.glob(os.path.join(HERE, 'seeded', '*', 'meta.json'))):
    sid = os.path.basename(os.path.dirname(mf))
    m = json.load(open(mf))
    caught = '; '.join('%s: `%s`' % (k, v) for k, v in m['caught_by'].items()) or '**missed**'
    first = 'yes' if m.get('caught_before_strengthening') else 'no'
    rows.append('| %s | %s | %s | %s | %s |' % (
        sid, m['property'], m['needs_to_manifest'].replace('|', '\\|'), caught,
        first + ('' if not m.get('strengthening') else ' — ' + m['strengthening'].replace('|', '\\|'))))
table = ['<!-- SEEDED-TABLE-BEGIN -->',
         '| change | property | what it needs to manifest | caught by (check: key) | caught at first try? / what was strengthened |',
         '|---|---|---|---|---|'] + rows + ['<!-- SEEDED-TABLE-END -->']
p = os.path.join(HERE, 'DESIGN.md')
t = open(p).read()
block = '\n'.join(table)
if '<!-- SEEDED-TABLE-BEGIN -->' in t:
    t = re.sub(r'<!-- SEEDED-TABLE-BEGIN -->.*?<!-- SEEDED-TABLE-END -->', lambda m_: block, t, flags=re.S)
else:
    t += '''

### 8.5 Seeded changes (independent sub-agents) and which checks catch them

Each change below was produced by a sub-agent that saw only the text of the property and its own scratch
git worktree of /repo (nothing from /verif), together with a demonstration program that fails with the
change and passes without it, and a statement of which repository tests still pass. Each was confirmed
here with `tools/seedtest.sh` (scratch copy of /repo + patch: the demonstration exits 0 on the clean tree
and non-zero with the change; then the quick tier of the named checks with `VERIF_REPO=<scratch>`). The
patch, demonstration and notes are kept under `seeded/<change>/` with a `meta.json`. Where a change was
missed at first, the check was strengthened (more input classes or a stronger oracle, never a special
case for the change) and the row says what was added.

''' + block + '\n'
open(p, 'w').write(t)
print('%d seeded changes in table' % len(rows))
