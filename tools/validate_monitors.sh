#!/bin/sh
# Applies every mutant of tools/mutants.txt (optionally filtered by property id) to a scratch
# copy and requires the quick check to report a violation.  usage: tools/validate_monitors.sh [ID]
cd "$(dirname "$0")/.."
FAIL=0
grep -v '^#' tools/mutants.txt | grep -v '^$' | while IFS='|' read -r id name expr; do
  [ -n "$1" ] && [ "$1" != "$id" ] && continue
  out=$(tools/mutant.sh "$expr" "$id" 2>&1); rc=$?
  if [ $rc -eq 0 ]; then echo "CAUGHT   $id $name: $(echo "$out" | grep key= | head -2 | tr -s ' ' | tr '\n' ';')";
  else echo "MISSED   $id $name: $(echo "$out" | head -3 | tr '\n' ';')"; fi
done
