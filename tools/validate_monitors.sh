#!/bin/sh
# Applies every mutant of tools/mutants.txt (optionally filtered by property id) to a scratch
# copy and requires the quick check to report a violation.  usage: tools/validate_monitors.sh [ID]
cd "$(dirname "$0")/.."
FAIL=0
cat tools/mutants.txt tools/mutants.d/*.txt 2>/dev/null | grep -v '^#' | grep -v '^$' | while IFS='|' read -r id name expr; do
  [ -n "$1" ] && [ "$1" != "$id" ] && continue
  out=$(tools/mutant.sh "$expr" "$id" 2>&1); rc=$?
  if [ $rc -eq 0 ]; then echo "CAUGHT   $id $name: $(echo "$out" | grep key= | head -2 | tr -s ' ' | tr '\n' ';')";
  else echo "MISSED   $id $name: $(echo "$out" | head -3 | tr '\n' ';')"; fi
done
