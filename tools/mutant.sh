#!/bin/sh
# Runs checks against a scratch copy of /repo with a patch applied (monitor validation).
# usage: tools/mutant.sh <patch.diff | 'sed-expr@file'> <ID> [more IDs...]   (env TIER=quick|thorough, EXTRA="--cases N")
P="$1"; shift
case "$P" in *@*) ;; /*) ;; *) P="$(pwd)/$P";; esac
S="$(mktemp -d /tmp/vf-scratch-XXXXXX)"
rsync -a --exclude .git --exclude '*.pyc' --exclude __pycache__ --exclude docs --exclude tests/schema /repo/ "$S/"
cd "$S" || exit 2
case "$P" in
  *@*) expr="${P%@*}"; file="${P##*@}"; cp "$file" "$file.orig"; sed -i -E "$expr" "$file"
       if cmp -s "$file" "$file.orig"; then echo "MUTANT DID NOT APPLY: $P"; rm -rf "$S"; exit 3; fi; rm "$file.orig";;
  *) patch -p1 -s < "$P" || { echo "PATCH FAILED: $P"; rm -rf "$S"; exit 3; };;
esac
cd /verif
RC=0
for id in "$@"; do
  VERIF_REPO="$S" ./check "$id" --tier "${TIER:-quick}" $EXTRA > "$S/out.$id" 2>&1
  rc=$?
  echo "== $id on mutant: exit $rc; $(grep -c '^VIOLATION' "$S/out.$id") violation keys"
  grep -A1 '^VIOLATION' "$S/out.$id" | grep 'key=' | head -5
  grep '^INCONCLUSIVE' "$S/out.$id" | head -3 | cut -c1-300
  [ $rc -eq 1 ] || RC=1
done
rm -rf "$S"
exit $RC
