#!/bin/sh
# Full repository suite on a scratch copy with one seeded change applied (confirmation that the
# change passes the existing tests).  usage: tools/seedbaseline.sh <seed dir>...   (appends to stdout)
for SD in "$@"; do
  sid=$(basename "$SD")
  S=$(mktemp -d /tmp/vf-sb-XXXXXX)
  rsync -a --exclude .git --exclude '*.pyc' --exclude __pycache__ --exclude docs /repo/ "$S/"
  if ( cd "$S" && patch -p1 -s < "$SD/patch.diff" ); then
    echo "#### $sid $(/verif/tools/baseline.sh "$S" 12 | grep -A5 'baseline stable_pass' | tr '\n' ' ' | cut -c1-700)"
  else
    echo "#### $sid PATCH FAILED"
  fi
  rm -rf "$S"
done
