#!/bin/sh
# Confirms a seeded change and runs checks against it, on a scratch copy of /repo.
# usage: tools/seedtest.sh <dir with patch.diff and demo.py> [--baseline] <ID> [ID...]
SD="$(cd "$1" && pwd)"; shift
BASE=0; [ "$1" = "--baseline" ] && { BASE=1; shift; }
S="$(mktemp -d /tmp/vf-seed-XXXXXX)"
if [ $BASE -eq 1 ]; then rsync -a --exclude .git --exclude '*.pyc' --exclude __pycache__ --exclude docs /repo/ "$S/";
else rsync -a --exclude .git --exclude '*.pyc' --exclude __pycache__ --exclude docs --exclude tests/schema /repo/ "$S/"; fi
( cd "$S" && patch -p1 -s < "$SD/patch.diff" ) || { echo "PATCH FAILED"; rm -rf "$S"; exit 3; }
DEMO="$SD/demo.py"; [ -f "$DEMO" ] || DEMO="$SD/demo_test.py"
# demonstrations may start listeners on fixed ports: private network namespace where available
NS=""; unshare -n true 2>/dev/null && NS="unshare -n"
( cd /repo && $NS sh -c 'ip link set lo up 2>/dev/null; exec timeout 300 /venv/bin/python "$0"' "$DEMO" >/dev/null 2>&1 ); d0=$?
( cd "$S" && $NS sh -c 'ip link set lo up 2>/dev/null; exec timeout 300 /venv/bin/python "$0"' "$DEMO" >/dev/null 2>&1 ); d1=$?
echo "demo: clean tree exit $d0 (want 0), with change exit $d1 (want != 0)"
if [ $BASE -eq 1 ]; then /verif/tools/baseline.sh "$S" 10 | tail -4; fi
cd /verif
for id in "$@"; do
  VERIF_REPO="$S" ./check "$id" --tier "${TIER:-quick}" $EXTRA > "$S/out.$id" 2>&1; rc=$?
  echo "== $id on seeded change: exit $rc; $(grep -c '^VIOLATION' "$S/out.$id") violation keys"
  grep -A1 '^VIOLATION' "$S/out.$id" | grep 'key=' | head -4 | cut -c1-220
  grep '^INCONCLUSIVE' "$S/out.$id" | head -2 | cut -c1-300
done
rm -rf "$S"
