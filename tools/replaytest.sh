#!/bin/sh
# Applies a seeded change to a scratch copy, runs the quick check, then replays every witness it wrote
# and reports whether the replay reproduces the violation.  usage: tools/replaytest.sh <seed dir> <ID>
SD="$(cd "$1" && pwd)"; ID="$2"
S="$(mktemp -d /tmp/vf-rt-XXXXXX)"
rsync -a --exclude .git --exclude '*.pyc' --exclude __pycache__ --exclude docs --exclude tests/schema /repo/ "$S/"
( cd "$S" && patch -p1 -s < "$SD/patch.diff" ) || { echo "PATCH FAILED"; rm -rf "$S"; exit 3; }
cd /verif
rm -rf work/scratch-replay/$ID
VERIF_REPO="$S" ./check "$ID" $EXTRA > "$S/out" 2>&1
n=0; ok=0
for f in work/scratch-replay/$ID/*.json; do
  [ -f "$f" ] || continue
  n=$((n+1))
  if VERIF_REPO="$S" ./check "$ID" --replay "$f" 2>&1 | grep -q '^VIOLATION'; then ok=$((ok+1)); else echo "  not reproduced: $(grep -m1 '"key"' $f | cut -c1-160)"; fi
done
echo "$ID on $(basename $SD): $n witnesses, $ok reproduced by --replay"
rm -rf "$S"
