#!/bin/sh
# usage: tools/applyfix.sh <proposed_fixes/X.diff> "<commit subject>" "<commit body>"
# Applies a reviewed patch to /repo as one "fix:" commit.
D="$(readlink -f "$1")"
cd /repo || exit 2
git apply --check "$D" 2>/dev/null && git apply "$D" || patch -p1 -s < "$D" || { echo "APPLY FAILED: $1"; git checkout -- .; exit 1; }
git commit -qam "fix: $2

$3" && git log --oneline -1
