#!/bin/sh
# Runs the repository's pinned test suite (no source hooks exist, so "guard off"
# is the only mode) split into one pytest process per test file, in parallel, and
# compares the union of the junit results with stable_pass in BASELINE.json.
# usage: tools/baseline.sh [repo-dir] [parallelism]
# The listener tests of the repository bind fixed TCP ports (50000-50002): run everything in a
# private network namespace (loopback only; the sandbox has no network anyway), so that several
# baselines and the listener checks can run at the same time.
if [ -z "$VF_NETNS" ] && unshare -n true 2>/dev/null; then
  VF_NETNS=1; export VF_NETNS
  exec unshare -n sh -c 'ip link set lo up 2>/dev/null || ifconfig lo up 2>/dev/null; exec "$0" "$@"' "$0" "$@"
fi
REPO="${1:-/repo}"
N="${2:-12}"
OUT="$(mktemp -d /tmp/vf-baseline.XXXXXX)"
cd "$REPO" || exit 2
{ find tests -name 'test_*.py' -not -path '*/end2endtest/*' -not -path '*/manualtest/*' -not -path '*/installtest/*'; echo tests/functiontest; } | sort > "$OUT/units.txt"
i=0
while read -r u; do i=$((i+1)); echo "$i $u"; done < "$OUT/units.txt" | \
  xargs -P "$N" -L 1 sh -c 'env -u PYWBEM_VERIF /venv/bin/python -m pytest -q -p no:cacheprovider --timeout=900 --continue-on-collection-errors -o log_file='"$OUT"'/pytest$0.log --junitxml='"$OUT"'/junit$0.xml "$1" >'"$OUT"'/log$0.txt 2>&1'
/venv/bin/python - "$OUT" "$REPO" <<'PY'
import glob, json, os, subprocess, sys, xml.etree.ElementTree as ET
out, repo = sys.argv[1], sys.argv[2]
base = set(json.load(open('/root/.vp/BASELINE.json'))['stable_pass'])
def collect():
    passed, failed = set(), set()
    for fn in glob.glob(out + '/junit*.xml'):
        try:
            root = ET.parse(fn).getroot()
        except ET.ParseError:
            continue
        for tc in root.iter('testcase'):
            tid = (tc.get('classname') or '') + '::' + (tc.get('name') or '')
            # some test ids contain the path of the repository directory
            tid = tid.replace(os.path.realpath(repo), '/repo')
            bad = any(c.tag in ('failure', 'error') for c in tc)
            skipped = any(c.tag == 'skipped' for c in tc)
            if bad: failed.add(tid)
            elif not skipped: passed.add(tid)
    return passed, failed
passed, failed = collect()
missing = sorted(base - passed)
if missing:
    # tests that share ports or scratch files disturb each other when their files
    # run in parallel: re-run the files of the missing tests sequentially
    files = set()
    for m in missing:
        mod = m.split('::')[0]
        if mod.startswith('tests.functiontest'):
            files.add('tests/functiontest')
            continue
        parts = mod.split('.')
        while parts and not os.path.exists(os.path.join(repo, *parts) + '.py'):
            parts.pop()
        if parts:
            files.add(os.path.join(*parts) + '.py')
    print('re-running sequentially: %s' % sorted(files))
    env = {k: v for k, v in os.environ.items() if k != 'PYWBEM_VERIF'}
    subprocess.run(['/venv/bin/python', '-m', 'pytest', '-q', '-p', 'no:cacheprovider',
                    '--timeout=900', '--continue-on-collection-errors',
                    '-o', 'log_file=%s/pytest_retry.log' % out,
                    '--junitxml=%s/junit_retry.xml' % out] + sorted(files),
                   cwd=repo, env=env, stdout=open(out + '/log_retry.txt', 'w'),
                   stderr=subprocess.STDOUT)
    p2, f2 = collect()
    passed = (passed | p2)
    # a test counts as passing if it passed in the undisturbed sequential re-run
    rp, rf = set(), set()
    root = ET.parse(out + '/junit_retry.xml').getroot()
    for tc in root.iter('testcase'):
        tid = (tc.get('classname') or '') + '::' + (tc.get('name') or '')
        tid = tid.replace(os.path.realpath(repo), '/repo')
        if any(c.tag in ('failure', 'error') for c in tc): rf.add(tid)
        elif not any(c.tag == 'skipped' for c in tc): rp.add(tid)
    missing = sorted(m for m in missing if m not in rp)
    failed = (failed - rp) | rf
print('baseline stable_pass: %d, passed now: %d, failed now: %d, stable tests not passing now: %d'
      % (len(base), len(passed), len(failed), len(missing)))
for m in missing[:40]:
    print('  NOT PASSING:', m, '(failed)' if m in failed else '(absent/skipped)')
sys.exit(1 if missing else 0)
PY
RC=$?
rm -rf "$OUT"
rm -f "$REPO/tests/unittest/pywbem/test_mofRoundTripOutput.mof"
exit $RC
