#!/bin/sh
# Emulates `vp check`: fresh clone of the committed /verif, setup_cmd, every quick_cmd once,
# evidence validated against the schema.  usage: tools/selfcheck.sh [ID ...]
D="$(mktemp -d /tmp/vf-selfcheck.XXXXXX)"
git -C /verif clone -q /verif "$D/verif" || exit 2
cd "$D/verif" || exit 2
sh -c "$(python3 -c "import json;print(json.load(open('MANIFEST.json'))['setup_cmd'])")" > "$D/setup.log" 2>&1 || { echo "SETUP FAILED"; cat "$D/setup.log"; }
python3 - "$@" <<'PY' > "$D/cmds.txt"
import json, sys
m = json.load(open('MANIFEST.json'))
want = set(sys.argv[1:])
for c in m['checks']:
    if not want or c['property_id'] in want:
        print(c['property_id'] + '\t' + c['quick_cmd'] + '\t' + c['evidence_file'])
PY
RC=0
while IFS="$(printf '\t')" read -r id cmd ev; do
  evl="$D/verif/evidence/$id.json"; rm -f "$evl"
  start=$(date +%s)
  PIP_NO_INDEX=1 sh -c "$cmd" > "$D/out.$id" 2>&1; rc=$?
  dur=$(( $(date +%s) - start ))
  nviol=$(grep -c '^VIOLATION' "$D/out.$id")
  valid=$(python3-vt - "$evl" <<'PY'
import json, sys, jsonschema
try:
    jsonschema.validate(json.load(open(sys.argv[1])), json.load(open('/root/.vp/EVIDENCE.schema.json')))
    print('evidence-valid')
except Exception as e:
    print('EVIDENCE-INVALID: %s' % str(e)[:200])
PY
)
  echo "$id exit=$rc violations=$nviol ${dur}s $valid $(tail -1 "$D/out.$id" | cut -c1-150)"
  [ $rc -eq 0 ] && [ "$valid" = "evidence-valid" ] || RC=1
done < "$D/cmds.txt"
rm -rf "$D"
exit $RC
