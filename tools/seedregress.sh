#!/bin/sh
# Runs the quick tier of the owning check against every recorded seeded change (scratch copies) and
# reports the ones that are NOT caught.  usage: tools/seedregress.sh [seed ids...]  (default: all)
cd /verif || exit 2
if [ $# -eq 0 ]; then set -- $(ls seeded | grep '^C[0-9]'); fi
for sid in "$@"; do
  [ -f "seeded/$sid/meta.json" ] || continue
  ids=$(/venv/bin/python -c "import json;print(' '.join(json.load(open('seeded/$sid/meta.json'))['caught_by'].keys()))")
  out=$(EXTRA="${EXTRA:---workers 5}" tools/seedtest.sh "seeded/$sid" $ids 2>&1)
  demo=$(echo "$out" | grep '^demo:' | head -1)
  bad=""
  echo "$demo" | grep -q 'clean tree exit 0 (want 0), with change exit [1-9]' || bad="$bad DEMO"
  for id in $ids; do
    echo "$out" | grep -q "== $id on seeded change: exit 1" || bad="$bad $id-not-caught"
  done
  if [ -n "$bad" ]; then echo "PROBLEM $sid:$bad | $(echo "$out" | tr '\n' ' ' | cut -c1-300)"; else echo "ok $sid ($ids)"; fi
done
