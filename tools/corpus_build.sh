#!/bin/sh
# Runs C02 against every C02 validation mutant and every seeded C02 change (scratch copies) with a larger
# case count and adds the witnesses to corpus/C02 (tools/corpus_add.py).  usage: tools/corpus_build.sh [cases]
cd /verif || exit 2
CASES="${1:-120000}"
run() {  # $1 label, $2 scratch dir
  rm -rf work/scratch-replay/C02
  VERIF_REPO="$2" ./check C02 --cases "$CASES" --workers 8 > "$2/out.C02" 2>&1
  ls work/scratch-replay/C02/*.json >/dev/null 2>&1 && tools/corpus_add.py "$1" work/scratch-replay/C02/*.json || echo "$1: no witness"
}
cat tools/mutants.txt tools/mutants.d/*.txt | grep '^C02|' | while IFS='|' read -r id name expr; do
  S="$(mktemp -d /tmp/vf-corp-XXXXXX)"
  rsync -a --exclude .git --exclude '*.pyc' --exclude __pycache__ --exclude docs --exclude tests/schema /repo/ "$S/"
  expr="${expr%%   #*}"
  case "$expr" in
    *@*) e="${expr%@*}"; f="${expr##*@}"; ( cd "$S" && sed -i -E "$e" "$f" );;
    *) ( cd "$S" && patch -p1 -s < "$expr" ) || { echo "$name: PATCH FAILED"; rm -rf "$S"; continue; };;
  esac
  run "mutant-$name" "$S"
  rm -rf "$S"
done
for d in seeded/C02-*; do
  S="$(mktemp -d /tmp/vf-corp-XXXXXX)"
  rsync -a --exclude .git --exclude '*.pyc' --exclude __pycache__ --exclude docs --exclude tests/schema /repo/ "$S/"
  ( cd "$S" && patch -p1 -s < "/verif/$d/patch.diff" ) || { echo "$d: PATCH FAILED"; rm -rf "$S"; continue; }
  run "seeded-$(basename $d)" "$S"
  rm -rf "$S"
done
ls corpus/C02 | wc -l
