#!/venv/bin/python
"""usage: tools/markfixed.py CNN <commit> <key-substring> [...]: marks matching open findings as fixed."""
import json, sys
pid, commit, subs = sys.argv[1], sys.argv[2], sys.argv[3:]
for path in ('/verif/known_findings.d/%s.json' % pid, '/verif/known_findings.json'):
    try:
        d = json.load(open(path))
    except FileNotFoundError:
        continue
    n = 0
    for f in d['findings']:
        if f['property'] == pid and f['status'] == 'open' and any(s in f['key'] for s in subs):
            f['status'] = 'fixed'; f['commit'] = commit; n += 1
    if n:
        json.dump(d, open(path, 'w'), indent=1)
        print('%s: %d marked fixed (%s)' % (path, n, commit))
