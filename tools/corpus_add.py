#!/venv/bin/python
"""usage: tools/corpus_add.py <source label> <replay.json>...
Adds the deciding response of C02 witnesses (replay files written by ./check C02, also those under
work/scratch-replay from runs against seeded changes and validation mutants) to corpus/C02/.  Every
quick and thorough run of C02 answers its first cases with the corpus entries."""
import hashlib
import json
import os
import re
import sys

label, files = sys.argv[1], sys.argv[2:]
out = '/verif/corpus/C02'
os.makedirs(out, exist_ok=True)
have = set()
for fn in os.listdir(out):
    try:
        have.add(json.load(open(os.path.join(out, fn)))['response_b64'])
    except (ValueError, KeyError, OSError):
        pass
n = 0
for fn in files:
    rec = json.load(open(fn))
    d = rec.get('detail') or {}
    d = d.get('case', d) if isinstance(d, dict) else {}
    if not isinstance(d, dict) or 'response_b64' not in d or d['response_b64'] in have:
        continue
    call = d.get('call', '')
    m = re.match(r"(\w+)\(", call)
    if not m:
        continue
    op = m.group(1)
    method = None
    if op == 'InvokeMethod':
        mm = re.match(r"InvokeMethod\('([^']*)'", call)
        method = mm.group(1) if mm else None
    entry = {'op': op, 'method': method, 'response_b64': d['response_b64'],
             'status': d.get('response_status', 200), 'headers': d.get('response_headers'),
             'target': d.get('payload_on_request', 0),
             'note': {'source': label, 'key': rec.get('key'), 'mutation': d.get('mutation')}}
    h = hashlib.sha1(d['response_b64'].encode()).hexdigest()[:12]
    name = '%s-%s.json' % (re.sub(r'[^A-Za-z0-9_.-]', '_', label)[:60], h)
    json.dump(entry, open(os.path.join(out, name), 'w'), indent=1)
    have.add(d['response_b64'])
    n += 1
print('%s: %d entries added' % (label, n))
