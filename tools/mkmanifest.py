#!/venv/bin/python
"""Regenerates /verif/MANIFEST.json from the META blocks of vf/props/*.py.
Properties without a check module are listed under not_applicable."""
import json
import os
import sys

HERE = os.path.dirname(os.path.dirname(os.path.abspath(__file__)))
sys.path.insert(0, HERE)
from vf import setup_path  # noqa: E402
setup_path()
import importlib  # noqa: E402

props = [json.loads(l) for l in open(os.path.join(HERE, 'properties.jsonl'))]
# only checks listed in tools/claimed.txt are claimed (modules still under
# construction may exist on disk)
CLAIMED = set(open(os.path.join(HERE, 'tools', 'claimed.txt')).read().split())
mods = {}
for fn in sorted(os.listdir(os.path.join(HERE, 'vf', 'props'))):
    if fn.startswith('c') and fn.endswith('.py') and \
            fn[:3].upper() in CLAIMED:
        m = importlib.import_module('vf.props.' + fn[:-3])
        mods[m.META['id']] = (m, fn)

NOT_APPLICABLE = {}   # id -> reason, for properties deliberately not claimed
PENDING = 'check not built yet in this session (runtime monitoring applies; see DESIGN.md section 3)'

checks = []
na = []
for p in props:
    pid = p['id']
    if pid in mods and pid not in NOT_APPLICABLE:
        m, fn = mods[pid]
        meta = m.META
        c = {
            'property_id': pid,
            'quick_cmd': './check %s --tier quick' % pid,
            'thorough_cmd': './check %s --tier thorough' % pid,
            'evidence_file': '/verif/evidence/%s.json' % pid,
            'replay_cmd_template': './check %s --replay {path}' % pid,
            'engine': 'vf',
            'level_claimed': {'category': meta['level'],
                              'text': meta['level_text'],
                              'design_ref': meta.get('design_ref', 'DESIGN.md')},
            'level_note': meta['level_note'],
            'technique': meta['technique'],
        }
        checks.append(c)
    else:
        na.append({'property_id': pid,
                   'reason': NOT_APPLICABLE.get(pid, PENDING)})

manifest = {
    'version': 1,
    'setup_cmd': './setup.sh',
    'hooks': {
        'guard': 'PYWBEM_VERIF',
        'enable': 'no source hooks exist: checks import the working tree of /repo '
                  '(VERIF_REPO overrides) and instrument it from outside with '
                  'sys.monitoring (reach counters, invariants, yield injection)',
        'baseline_off_cmd': 'cd /repo && /venv/bin/python -m pytest -ra -q -p no:cacheprovider '
                            '--timeout=900 --continue-on-collection-errors',
        'source_commits': [],
        'add_only': True,
    },
    'engines': [{
        'name': 'vf', 'path': '/verif/vf',
        'serves_properties': [c['property_id'] for c in checks],
        'kind_free_text': 'runtime monitoring harness: seeded workload generators, boundary '
                          'monitors, reference-model and differential oracles, sys.monitoring '
                          'reach counters / invariants / schedule perturbation; subprocess '
                          'workers with CPU-time and wall-clock watchdogs; three-valued verdicts',
    }],
    'checks': checks,
    'not_applicable': na,
    'notes': 'Technique family: runtime monitoring. Compiler sanitizers / valgrind / race detectors '
             'do not apply (pure Python, no native code). Exit codes of ./check: 0 held on '
             'everything explored, 1 VIOLATION (unlisted), 2 INCONCLUSIVE (deciding monitor not '
             'reached / too few events / watchdog). Known findings: /verif/known_findings.json.',
}
with open(os.path.join(HERE, 'MANIFEST.json'), 'w') as f:
    json.dump(manifest, f, indent=1)
    f.write('\n')
print('MANIFEST.json: %d checks, %d not claimed' % (len(checks), len(na)))
