#!/bin/sh
# Offline setup: optional runtime-contract libraries beside the repo's interpreter,
# and PLY parse tables for the MOF compiler built once, single-threaded.
cd "$(dirname "$0")"
mkdir -p .deps work evidence replay
/venv/bin/pip install --quiet --no-index --find-links /opt/veriftools/wheels --target .deps icontract deal >/dev/null 2>&1 || echo "setup: icontract/deal not installed (contracts degrade to sys.monitoring form)"
REPO="${VERIF_REPO:-/repo}"
/venv/bin/python - <<PY
import sys
sys.path.insert(0, "$REPO")
import pywbem
from pywbem._mof_compiler import MOFCompiler, MOFWBEMConnection
c = MOFCompiler(MOFWBEMConnection(), verbose=False)
print("setup: PLY tables ready for", pywbem.__file__)
PY
exit 0
